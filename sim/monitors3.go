package zz_verifsim

import (
	"bytes"
	"fmt"
	"math"
	"time"

	"github.com/relab/hotstuff"
	"github.com/relab/hotstuff/internal/proto/clientpb"
	"github.com/relab/hotstuff/internal/proto/hotstuffpb"
	"github.com/relab/hotstuff/security/cert"
	"google.golang.org/protobuf/proto"
)

// ---- C12: wire encoding preserves meaning -------------------------------------------------------------

func participantsOf(sig hotstuff.QuorumSignature) []hotstuff.ID {
	var ids []hotstuff.ID
	if sig == nil {
		return nil
	}
	sig.Participants().ForEach(func(id hotstuff.ID) { ids = append(ids, id) })
	return ids
}

func sigDiff(a, b hotstuff.QuorumSignature) string {
	if (a == nil) != (b == nil) {
		// an absent signature and one without any signer mean the same thing to every verifier
		na, nb := 0, 0
		if a != nil {
			na = a.Participants().Len()
		}
		if b != nil {
			nb = b.Participants().Len()
		}
		if na == 0 && nb == 0 {
			return ""
		}
		return fmt.Sprintf("signature present=%v became present=%v", a != nil, b != nil)
	}
	if a == nil {
		return ""
	}
	if !bytes.Equal(a.ToBytes(), b.ToBytes()) {
		return "signature bytes differ"
	}
	pa, pb := participantsOf(a), participantsOf(b)
	if len(pa) != len(pb) {
		return fmt.Sprintf("participants %v became %v", pa, pb)
	}
	for i := range pa {
		if pa[i] != pb[i] {
			return fmt.Sprintf("participants %v became %v", pa, pb)
		}
	}
	return ""
}

func qcDiff(a, b hotstuff.QuorumCert) string {
	if a.View() != b.View() {
		return fmt.Sprintf("QC view %d became %d", a.View(), b.View())
	}
	if a.BlockHash() != b.BlockHash() {
		return "QC block hash changed"
	}
	if d := sigDiff(a.Signature(), b.Signature()); d != "" {
		return "QC " + d
	}
	return ""
}

func tcDiff(a, b hotstuff.TimeoutCert) string {
	if a.View() != b.View() {
		return fmt.Sprintf("TC view %d became %d", a.View(), b.View())
	}
	if d := sigDiff(a.Signature(), b.Signature()); d != "" {
		return "TC " + d
	}
	return ""
}

func aggDiff(a, b hotstuff.AggregateQC) string {
	if a.View() != b.View() {
		return fmt.Sprintf("AggQC view %d became %d", a.View(), b.View())
	}
	if d := sigDiff(a.Sig(), b.Sig()); d != "" {
		return "AggQC " + d
	}
	if len(a.QCs()) != len(b.QCs()) {
		return fmt.Sprintf("AggQC has %d QCs, became %d", len(a.QCs()), len(b.QCs()))
	}
	for id, qa := range a.QCs() {
		qb, ok := b.QCs()[id]
		if !ok {
			return fmt.Sprintf("AggQC lost the QC of replica %d", id)
		}
		if d := qcDiff(qa, qb); d != "" {
			return fmt.Sprintf("AggQC[%d] %s", id, d)
		}
	}
	return ""
}

func siDiff(a, b hotstuff.SyncInfo) string {
	qa, oka := a.QC()
	qb, okb := b.QC()
	if oka != okb {
		return fmt.Sprintf("sync info QC present=%v became %v", oka, okb)
	}
	if oka {
		if d := qcDiff(qa, qb); d != "" {
			return d
		}
	}
	ta, oka := a.TC()
	tb, okb := b.TC()
	if oka != okb {
		return fmt.Sprintf("sync info TC present=%v became %v", oka, okb)
	}
	if oka {
		if d := tcDiff(ta, tb); d != "" {
			return d
		}
	}
	ga, oka := a.AggQC()
	gb, okb := b.AggQC()
	if oka != okb {
		return fmt.Sprintf("sync info AggQC present=%v became %v", oka, okb)
	}
	if oka {
		if d := aggDiff(ga, gb); d != "" {
			return d
		}
	}
	return ""
}

func blockDiff(a, b *hotstuff.Block) string {
	if a.Hash() != b.Hash() {
		switch {
		case a.Parent() != b.Parent():
			return "block parent changed"
		case a.View() != b.View():
			return "block view changed"
		case a.Proposer() != b.Proposer():
			return "block proposer changed"
		case !bytes.Equal(a.Commands().Marshal(), b.Commands().Marshal()):
			return "block commands changed"
		case a.Timestamp().UnixNano() != b.Timestamp().UnixNano():
			return "block timestamp changed"
		}
		if d := qcDiff(a.QuorumCert(), b.QuorumCert()); d != "" {
			return "block " + d
		}
		return "block hash changed"
	}
	if !bytes.Equal(a.ToBytes(), b.ToBytes()) {
		return "block bytes changed"
	}
	return qcDiff(a.QuorumCert(), b.QuorumCert())
}

// roundTrip puts a protocol object through ToProto, Marshal, Unmarshal, FromProto and reports the first
// difference in meaning.
func roundTrip(val any) (diff string, decoded any) {
	defer func() {
		if r := recover(); r != nil {
			diff = fmt.Sprintf("conversion panicked: %v", r)
		}
	}()
	rt := func(src, dst proto.Message) bool {
		buf, err := proto.Marshal(src)
		if err != nil {
			diff = "marshal failed: " + err.Error()
			return false
		}
		if err := proto.Unmarshal(buf, dst); err != nil {
			diff = "unmarshal failed: " + err.Error()
			return false
		}
		return true
	}
	switch v := val.(type) {
	case hotstuff.ProposeMsg:
		pb := &hotstuffpb.Proposal{}
		if !rt(hotstuffpb.ProposalToProto(v), pb) {
			return
		}
		d := hotstuffpb.ProposalFromProto(pb)
		if x := blockDiff(v.Block, d.Block); x != "" {
			return "proposal: " + x, d
		}
		if (v.AggregateQC == nil) != (d.AggregateQC == nil) {
			return "proposal: aggregate QC presence changed", d
		}
		if v.AggregateQC != nil {
			if x := aggDiff(*v.AggregateQC, *d.AggregateQC); x != "" {
				return "proposal: " + x, d
			}
		}
		return "", d
	case hotstuff.VoteMsg:
		pb := &hotstuffpb.PartialCert{}
		if !rt(hotstuffpb.PartialCertToProto(v.PartialCert), pb) {
			return
		}
		d := hotstuffpb.PartialCertFromProto(pb)
		if d.BlockHash() != v.PartialCert.BlockHash() {
			return "vote: block hash changed", d
		}
		if d.Signer() != v.PartialCert.Signer() {
			return fmt.Sprintf("vote: signer %d became %d", v.PartialCert.Signer(), d.Signer()), d
		}
		if x := sigDiff(v.PartialCert.Signature(), d.Signature()); x != "" {
			return "vote: " + x, d
		}
		return "", d
	case hotstuff.NewViewMsg:
		pb := &hotstuffpb.SyncInfo{}
		if !rt(hotstuffpb.SyncInfoToProto(v.SyncInfo), pb) {
			return
		}
		d := hotstuffpb.SyncInfoFromProto(pb)
		return prefixed("new-view: ", siDiff(v.SyncInfo, d)), d
	case hotstuff.TimeoutMsg:
		pb := &hotstuffpb.TimeoutMsg{}
		if !rt(hotstuffpb.TimeoutMsgToProto(v), pb) {
			return
		}
		d := hotstuffpb.TimeoutMsgFromProto(pb)
		d.ID = v.ID // the receiver takes the sender from the authenticated transport
		if d.View != v.View {
			return fmt.Sprintf("timeout: view %d became %d", v.View, d.View), d
		}
		if x := sigDiff(v.ViewSignature, d.ViewSignature); x != "" {
			return "timeout: view " + x, d
		}
		if x := sigDiff(v.MsgSignature, d.MsgSignature); x != "" {
			return "timeout: message " + x, d
		}
		if x := siDiff(v.SyncInfo, d.SyncInfo); x != "" {
			return "timeout: " + x, d
		}
		if !bytes.Equal(v.ToBytes(), d.ToBytes()) {
			return "timeout: bytes-to-sign changed", d
		}
		return "", d
	case *hotstuff.Block:
		pb := &hotstuffpb.Block{}
		if !rt(hotstuffpb.BlockToProto(v), pb) {
			return
		}
		d := hotstuffpb.BlockFromProto(pb)
		return prefixed("block: ", blockDiff(v, d)), d
	case hotstuff.QuorumCert:
		pb := &hotstuffpb.QuorumCert{}
		if !rt(hotstuffpb.QuorumCertToProto(v), pb) {
			return
		}
		d := hotstuffpb.QuorumCertFromProto(pb)
		return prefixed("QC: ", qcDiff(v, d)), d
	case hotstuff.TimeoutCert:
		pb := &hotstuffpb.TimeoutCert{}
		if !rt(hotstuffpb.TimeoutCertToProto(v), pb) {
			return
		}
		d := hotstuffpb.TimeoutCertFromProto(pb)
		return prefixed("TC: ", tcDiff(v, d)), d
	case hotstuff.AggregateQC:
		pb := &hotstuffpb.AggQC{}
		if !rt(hotstuffpb.AggregateQCToProto(v), pb) {
			return
		}
		d := hotstuffpb.AggregateQCFromProto(pb)
		return prefixed("AggQC: ", aggDiff(v, d)), d
	}
	return "", nil
}

func prefixed(p, s string) string {
	if s == "" {
		return ""
	}
	return p + s
}

func monC12(w *World) {
	au, err := newAuditor(w)
	if err != nil {
		panic("harness: auditor: " + err.Error())
	}
	verdictSame := func(kind string, f func(a *cert.Authority) (error, error)) {
		defer func() { _ = recover() }()
		e1, e2 := f(au.plain)
		if (e1 == nil) != (e2 == nil) {
			w.violate("C12", "C12/"+kind+"/verdict", nil, "%s: verification verdict %s before the round trip, %s after", kind, verdict(e1), verdict(e2))
		}
	}
	check := func(val any, what string) {
		if w.viol != nil {
			return
		}
		diff, dec := roundTrip(val)
		w.probe("c12-roundtrip")
		if diff != "" {
			w.violate("C12", "C12/"+what+"/meaning", nil, "%s", diff)
			return
		}
		switch v := val.(type) {
		case hotstuff.ProposeMsg:
			d := dec.(hotstuff.ProposeMsg)
			verdictSame("proposal", func(a *cert.Authority) (error, error) {
				return a.VerifyQuorumCert(v.Block.QuorumCert()), a.VerifyQuorumCert(d.Block.QuorumCert())
			})
		case hotstuff.NewViewMsg:
			d := dec.(hotstuff.SyncInfo)
			if qc, ok := v.SyncInfo.QC(); ok {
				dq, _ := d.QC()
				verdictSame("new-view", func(a *cert.Authority) (error, error) { return a.VerifyQuorumCert(qc), a.VerifyQuorumCert(dq) })
			}
			if tc, ok := v.SyncInfo.TC(); ok && tc.Signature() != nil {
				dt, _ := d.TC()
				verdictSame("new-view", func(a *cert.Authority) (error, error) { return a.VerifyTimeoutCert(tc), a.VerifyTimeoutCert(dt) })
			}
			if ag, ok := v.SyncInfo.AggQC(); ok && ag.Sig() != nil {
				dg, _ := d.AggQC()
				verdictSame("new-view", func(a *cert.Authority) (error, error) {
					_, e1 := a.VerifyAggregateQC(ag)
					_, e2 := a.VerifyAggregateQC(dg)
					return e1, e2
				})
			}
		case hotstuff.TimeoutMsg:
			d := dec.(hotstuff.TimeoutMsg)
			if v.ViewSignature != nil && d.ViewSignature != nil {
				verdictSame("timeout", func(a *cert.Authority) (error, error) {
					return a.Verify(v.ViewSignature, v.View.ToBytes()), a.Verify(d.ViewSignature, d.View.ToBytes())
				})
			}
		case hotstuff.VoteMsg:
			d := dec.(hotstuff.PartialCert)
			if v.PartialCert.Signature() != nil && d.Signature() != nil {
				verdictSame("vote", func(a *cert.Authority) (error, error) {
					return a.VerifyPartialCert(v.PartialCert), a.VerifyPartialCert(d)
				})
			}
		}
	}
	w.hooks.onSend = append(w.hooks.onSend, func(from *Node, to hotstuff.ID, m *Msg) {
		if m.val == nil {
			return
		}
		what := m.kind
		if m.forged {
			w.probe("c12-adversarial-object")
		}
		if pm, ok := m.val.(hotstuff.ProposeMsg); ok && pm.Block == nil {
			return
		}
		check(m.val, what)
	})
	// a block fetched by hash is the block that hash names
	w.hooks.onFetch = append(w.hooks.onFetch, func(nd *Node, h hotstuff.Hash, b *hotstuff.Block, ok bool) {
		if ok && b != nil {
			w.probe("c12-fetch-checked")
			if b.Hash() != h {
				w.violate("C12", "C12/fetch/hash", nd, "%s asked for block %s and was handed %s", nd, w.reg.sym(h), w.reg.sym(b.Hash()))
			}
		}
	})
	// objects crafted through the Go API with extreme fields
	w.hooks.atEnd = append(w.hooks.atEnd, func() {
		if w.viol != nil {
			return
		}
		g := newGen(w.plan.Inner, 12)
		var sigs []hotstuff.QuorumSignature
		var qcs []hotstuff.QuorumCert
		for _, r := range w.orc.signs {
			if len(sigs) < 24 {
				sigs = append(sigs, r.sig)
			}
		}
		for _, bi := range w.reg.order {
			if qc := bi.b.QuorumCert(); qc.Signature() != nil && len(qcs) < 16 {
				qcs = append(qcs, qc)
				sigs = append(sigs, qc.Signature())
			}
		}
		sigs = append(sigs, nil, emptySig(w.plan.Crypto))
		views := []hotstuff.View{0, 1, 2, 255, 256, 1 << 31, 1<<32 - 1, 1 << 32, 1<<63 - 1, 1 << 63, math.MaxUint64}
		ids := []hotstuff.ID{0, 1, hotstuff.ID(w.plan.N), 255, 256, 65535, 1 << 31, math.MaxUint32}
		times := []time.Time{{}, time.Unix(0, 0), time.Unix(0, 1), time.Unix(1, 999999999), time.Unix(1<<31, 5), time.Unix(253402300799, 999999999),
			time.Date(1970, 1, 1, 0, 0, 0, 0, time.UTC), time.Date(2262, 4, 11, 23, 47, 16, 854775807, time.UTC), time.Unix(-1, 0), time.Unix(0, -1), w.t0}
		batches := []*clientpb.Batch{nil, {}, {Commands: []*clientpb.Command{}}, {Commands: []*clientpb.Command{{ClientID: math.MaxUint32, SequenceNumber: math.MaxUint64, Data: nil}}},
			{Commands: []*clientpb.Command{{ClientID: 1, SequenceNumber: 1, Data: []byte{}}, {ClientID: 1, SequenceNumber: 2, Data: bytes.Repeat([]byte{0xff}, 300)}}}}
		for i := 0; i < 40 && w.viol == nil; i++ {
			var h hotstuff.Hash
			for j := range h {
				h[j] = byte(g.intn(256))
			}
			qc := hotstuff.NewQuorumCert(sigs[g.intn(len(sigs))], views[g.intn(len(views))], h)
			if len(qcs) > 0 && g.p(0.5) {
				qc = qcs[g.intn(len(qcs))]
			}
			b := hotstuff.NewBlock(h, qc, batches[g.intn(len(batches))], views[g.intn(len(views))], ids[g.intn(len(ids))])
			b.SetTimestamp(times[g.intn(len(times))])
			w.fault("c12-extreme-object")
			check(b, "block")
			check(qc, "qc")
			tc := hotstuff.NewTimeoutCert(sigs[g.intn(len(sigs))], views[g.intn(len(views))])
			if tc.Signature() != nil {
				check(tc, "tc")
			}
			aq := map[hotstuff.ID]hotstuff.QuorumCert{}
			for k := 0; k < g.intn(4); k++ {
				aq[ids[g.intn(len(ids))]] = qc
			}
			check(hotstuff.NewAggregateQC(aq, sigs[g.intn(len(sigs))], views[g.intn(len(views))]), "aggqc")
			tm := hotstuff.TimeoutMsg{ID: ids[g.intn(len(ids))], View: views[g.intn(len(views))], ViewSignature: sigs[g.intn(len(sigs))], SyncInfo: hotstuff.NewSyncInfoWith(qc)}
			if g.p(0.5) {
				tm.MsgSignature = sigs[g.intn(len(sigs))]
			}
			if g.p(0.5) {
				tm.SyncInfo.SetTC(tc)
			}
			check(tm, "timeout")
		}
	})
}

// ---- C13: the block store is content-addressed, ancestry exact, aborts disjoint from commits ---------

func monC13(w *World) {
	type ab struct {
		aborted map[hotstuff.Hash]int
	}
	st := map[*Node]*ab{}
	fetched := map[*Node]bool{}
	contentCheck := func(nd *Node) {
		for _, bi := range w.reg.order {
			if b, ok := nd.bc.LocalGet(bi.b.Hash()); ok {
				if b.Hash() != bi.b.Hash() {
					w.violate("C13", "C13/content", nd, "%s stores under the hash of %s a block whose hash is that of %s", nd, bi.sym, w.reg.sym(b.Hash()))
					return
				}
			}
		}
	}
	w.hooks.onFetch = append(w.hooks.onFetch, func(nd *Node, h hotstuff.Hash, b *hotstuff.Block, ok bool) {
		if !nd.honest {
			return
		}
		fetched[nd] = true
		w.probe("c13-fetch")
		if ok && b != nil && b.Hash() != h {
			w.violate("C13", "C13/content", nd, "%s fetched block %s from its peers and obtained a block with another hash (%s)", nd, w.reg.sym(h), w.reg.sym(b.Hash()))
		}
	})
	w.hooks.afterStep = append(w.hooks.afterStep, func(nd *Node) {
		if nd.honest && fetched[nd] {
			fetched[nd] = false
			contentCheck(nd)
		}
	})
	w.hooks.onExec = append(w.hooks.onExec, func(nd *Node, ev any) {
		e, ok := ev.(clientpb.AbortEvent)
		if !ok || !nd.honest || nd.overflowed {
			return
		}
		if st[nd] == nil {
			st[nd] = &ab{aborted: map[hotstuff.Hash]int{}}
		}
		if e.Batch == nil {
			w.probe("c13-abort-without-batch") // a made-up block without a batch: several may share "no batch", none is attributable
			return
		}
		// which block? the one in this replica's store that owns this batch object
		var blk *hotstuff.Block
		for _, bi := range w.reg.order {
			if b, ok := nd.bc.LocalGet(bi.b.Hash()); ok && b.Commands() == e.Batch {
				blk = b
				break
			}
		}
		if blk == nil {
			w.probe("c13-abort-unmapped")
			return
		}
		w.probe("c13-abort")
		st[nd].aborted[blk.Hash()]++
		if st[nd].aborted[blk.Hash()] > 1 {
			w.violate("C13", "C13/abort-twice", nd, "%s reported block %s as abandoned twice", nd, w.reg.sym(blk.Hash()))
		}
	})
	w.hooks.atEnd = append(w.hooks.atEnd, func() {
		if w.viol != nil {
			return
		}
		for _, nd := range w.nodes {
			if !nd.honest || nd.crashed {
				continue
			}
			contentCheck(nd)
			if s := st[nd]; s != nil && !nd.overflowed {
				// the committed chain: walk parents from the last committed block
				for b := nd.states.CommittedBlock(); b != nil && b.View() > 0; {
					if s.aborted[b.Hash()] > 0 {
						w.violate("C13", "C13/abort-committed", nd, "%s reported block %s as abandoned, but it is on its committed chain", nd, w.reg.sym(b.Hash()))
						return
					}
					nb, ok := nd.bc.LocalGet(b.Parent())
					if !ok {
						break
					}
					b = nb
				}
			}
		}
		// storing a block again changes nothing
		for _, nd := range w.nodes {
			if !nd.honest || nd.crashed {
				continue
			}
			for i, bi := range w.reg.order {
				if i%3 != 0 {
					continue
				}
				if before, ok := nd.bc.LocalGet(bi.b.Hash()); ok {
					nd.bc.Store(bi.b)
					after, ok2 := nd.bc.LocalGet(bi.b.Hash())
					w.probe("c13-restore-checked")
					if !ok2 || after != before {
						w.violate("C13", "C13/restore", nd, "%s: storing %s again replaced or removed the stored block", nd, bi.sym)
						return
					}
				}
			}
		}
		// ancestry audit, with every block available (fetches are served from the registry)
		w.auditFetch = true
		g := newGen(w.plan.Inner, 13)
		blocks := w.reg.order
		if len(blocks) < 3 {
			return
		}
		// reference: exact ancestry in the registry's parent graph; domain: views grow along the walked links
		ref := func(b, t *hotstuff.Block) (ans bool, inDomain bool) {
			cur := b
			for cur.View() > t.View() {
				p := w.reg.get(cur.Parent())
				if p == nil {
					return false, true // missing ancestor: not an ancestor as far as anyone can tell
				}
				if p.View() >= cur.View() {
					return false, false
				}
				cur = p
			}
			return cur.Hash() == t.Hash(), true
		}
		for _, nd := range w.nodes {
			if !nd.honest || nd.crashed || w.viol != nil {
				continue
			}
			for i := 0; i < 60; i++ {
				b := blocks[g.intn(len(blocks))].b
				t := blocks[g.intn(len(blocks))].b
				if g.p(0.5) {
					// bias towards real ancestors and near misses
					t = b
					for k := g.intn(6); k > 0; k-- {
						if p := w.reg.get(t.Parent()); p != nil {
							t = p
						}
					}
					if g.p(0.2) && len(blocks) > 1 {
						// a block of the same view on another branch, if any
						for _, bi := range blocks {
							if bi.b.View() == t.View() && bi.b.Hash() != t.Hash() {
								t = bi.b
								break
							}
						}
					}
				}
				want, ok := ref(b, t)
				if !ok {
					continue
				}
				var got bool
				w.guard(nd, "Extends", func() { got = nd.bc.Extends(b, t) })
				w.probe("c13-extends-checked")
				if want {
					w.probe("c13-extends-true")
				}
				if got != want {
					w.violate("C13", "C13/extends", nd, "%s: Extends(%s, %s) = %v, but ancestry in the block forest says %v", nd, w.reg.sym(b.Hash()), w.reg.sym(t.Hash()), got, want)
					return
				}
			}
		}
	})
}
