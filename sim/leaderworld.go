package zz_verifsim

import (
	"fmt"
	"io"
	"testing"
	"time"

	"github.com/relab/hotstuff"
	"github.com/relab/hotstuff/core"
	"github.com/relab/hotstuff/core/eventloop"
	"github.com/relab/hotstuff/internal/proto/clientpb"
	"github.com/relab/hotstuff/protocol"
	"github.com/relab/hotstuff/protocol/leaderrotation"
	"github.com/relab/hotstuff/security/blockchain"
	"github.com/relab/hotstuff/security/cert"
	"github.com/relab/hotstuff/security/crypto"
)

// Leader world (every third C16 seed): the history-based schemes are functions of the committed chain, the
// shared seed and the query sequence. In full cluster runs the carousel's active branch is practically
// never taken (the committed head is almost never exactly chain-length views behind the queried view), so
// this world feeds the real Carousel / RepBased instances generated committed chains — view gaps, varying
// signer sets and proposers, missing ancestors — and seeded query sequences, on two replicas' identities.

func GenLeaderPlan(seed uint64) *Plan {
	g := newGen(seed, 16)
	p := &Plan{Version: 1, Property: "C16", Seed: seed, Inner: g.u64(), World: "leader", UntilMs: 1, MaxSteps: 100000}
	p.N = pick(g, 4, 4, 7, 7, 7, 10, 13)
	p.Leader = pick(g, "carousel", "carousel", "reputation")
	p.Ruleset = pick(g, "chainedhotstuff", "fasthotstuff")
	p.Knobs = map[string]int{"blocks": g.rng(3, 40), "gapPct": pick(g, 0, 20, 50), "queries": g.rng(1, 4), "missPct": pick(g, 0, 0, 10), "extraSigners": g.intn(3)}
	return p
}

func runLeaderWorld(t *testing.T, p *Plan, want []string, logw io.Writer) *Result {
	start := time.Now()
	res := &Result{Seed: p.Seed, Stats: newStats()}
	st := res.Stats
	g := newGen(p.Inner, 17)
	k := func(name string) int { return p.knob(name, 0) }
	logf := func(format string, a ...any) {
		line := fmt.Sprintf(format, a...)
		st.Fingerprint = mix(st.Fingerprint, hashStr(line))
		if logw != nil {
			_, _ = io.WriteString(logw, line+"\n")
		}
	}
	viol := func(class, format string, a ...any) {
		if res.Violation == nil {
			res.Violation = &Violation{Property: "C16", Class: class, Step: st.Steps, Detail: fmt.Sprintf(format, a...)}
			logf("VIOLATION %s %s", class, res.Violation.Detail)
		}
	}
	n := p.N
	f := 0
	for 3*(f+1) < n {
		f++
	}
	q := quorumOf(n)
	L := 3
	if p.Ruleset == "fasthotstuff" {
		L = 2
	}
	seed := int64(p.Inner % 1000003)

	// the committed chain
	type cb struct {
		b       *hotstuff.Block
		signers []hotstuff.ID
	}
	chain := []cb{{b: hotstuff.GetGenesis()}}
	avail := map[hotstuff.Hash]*hotstuff.Block{}
	view := hotstuff.View(0)
	for i := 1; i <= k("blocks"); i++ {
		parent := chain[len(chain)-1]
		view++
		if g.intn(100) < k("gapPct") {
			view += hotstuff.View(g.rng(1, 3))
		}
		// the embedded certificate: signed by a quorum (plus a few) of distinct replicas
		ns := q + g.intn(k("extraSigners")+1)
		if ns > n {
			ns = n
		}
		ids := g.subset(n, ns)
		sig := make(crypto.Multi[*crypto.EDDSASignature], 0, ns)
		var signers []hotstuff.ID
		for _, id := range ids {
			sig = append(sig, crypto.RestoreEDDSASignature([]byte{byte(id), byte(i)}, hotstuff.ID(id)))
			signers = append(signers, hotstuff.ID(id))
		}
		var qc hotstuff.QuorumCert
		if len(chain) == 1 {
			qc = hotstuff.NewQuorumCert(nil, 0, hotstuff.GetGenesis().Hash())
			if g.p(0.5) {
				qc = hotstuff.NewQuorumCert(sig, 0, hotstuff.GetGenesis().Hash())
			}
		} else {
			qc = hotstuff.NewQuorumCert(sig, parent.b.View(), parent.b.Hash())
		}
		b := hotstuff.NewBlock(parent.b.Hash(), qc, &clientpb.Batch{}, view, hotstuff.ID(g.rng(1, n)))
		chain = append(chain, cb{b: b, signers: signers})
		if g.intn(100) >= k("missPct") {
			avail[b.Hash()] = b
		}
	}
	mk := func(id hotstuff.ID) (leaderrotation.LeaderRotation, *protocol.ViewStates, error) {
		cfg := core.NewRuntimeConfig(id, nil, core.WithSharedRandomSeed(seed))
		for i := 1; i <= n; i++ {
			cfg.AddReplica(&hotstuff.ReplicaInfo{ID: hotstuff.ID(i)})
		}
		lg := &simLogger{nd: &Node{w: &World{stats: st}}}
		el := eventloop.New(lg, 16)
		snd := &forestSender{avail: avail}
		bc := blockchain.New(el, lg, snd)
		base, err := crypto.New(cfg, crypto.NameEDDSA)
		if err != nil {
			return nil, nil, err
		}
		vs, err := protocol.NewViewStates(bc, cert.NewAuthority(cfg, bc, base))
		if err != nil {
			return nil, nil, err
		}
		lr, err := leaderrotation.New(lg, cfg, bc, vs, p.Leader, L)
		return lr, vs, err
	}
	a, va, err := mk(1)
	if err != nil {
		res.Harness = err.Error()
		return res
	}
	b, vb, err := mk(hotstuff.ID(n))
	if err != nil {
		res.Harness = err.Error()
		return res
	}
	ask := func(lr leaderrotation.LeaderRotation, v hotstuff.View) (id hotstuff.ID, panicked any) {
		defer func() { panicked = recover() }()
		return lr.GetLeader(v), nil
	}
	for i := 1; i < len(chain) && res.Violation == nil; i++ {
		head := chain[i]
		va.UpdateCommittedBlock(head.b)
		vb.UpdateCommittedBlock(head.b)
		for qn := 0; qn < k("queries") && res.Violation == nil; qn++ {
			st.Steps++
			// mostly the view at which the carousel is active for this head, sometimes around it
			v := head.b.View() + hotstuff.View(L)
			switch g.intn(6) {
			case 0:
				v++
			case 1:
				v += hotstuff.View(g.rng(2, 9))
			case 2:
				if v > 1 {
					v--
				}
			}
			la, pa := ask(a, v)
			lb, pb := ask(b, v)
			logf("head=v%d proposer=%d query view %d -> %d / %d", head.b.View(), head.b.Proposer(), v, la, lb)
			if pa != nil || pb != nil {
				viol("C16/"+p.Leader+"/panic", "GetLeader(%d) panicked with committed head of view %d: %v %v", v, head.b.View(), pa, pb)
				break
			}
			st.Probes["c16-query"]++
			if la != lb {
				viol("C16/"+p.Leader+"/disagree", "replicas 1 and %d, with the same committed head (view %d) and the same queries, name %d and %d leader of view %d", n, head.b.View(), la, lb, v)
				break
			}
			if p.Leader == "carousel" {
				if int(la) < 1 || int(la) > n {
					viol("C16/carousel/unknown", "leader of view %d is %d, not a configured replica", v, la)
					break
				}
				if head.b.QuorumCert().Signature() != nil && head.b.View() == v-hotstuff.View(L) {
					st.Probes["c16-carousel-active"]++
					signed := false
					for _, s := range chain[i].signers {
						if s == la {
							signed = true
						}
					}
					// the certificate embedded in the head was signed by chain[i].signers
					if !signed {
						viol("C16/carousel/carousel-rule", "leader %d of view %d did not sign the certificate embedded in the latest committed block (view %d, signers %v)", la, v, head.b.View(), chain[i].signers)
						break
					}
					// last f committed blocks, as far as the replica can see them
					cur := head.b
					for j := 0; j < f && cur != nil && cur.View() > 0; j++ {
						if cur.Proposer() == la {
							viol("C16/carousel/carousel-rule", "leader %d of view %d proposed one of the last %d committed blocks (the block of view %d)", la, v, f, cur.View())
							break
						}
						if j > 0 {
							st.Probes["c16-carousel-looked-back"]++
						}
						nxt, ok := avail[cur.Parent()]
						if !ok {
							if cur.Parent() == hotstuff.GetGenesis().Hash() {
								break
							}
							st.Faults["ancestor-missing"]++
							break
						}
						if cur.View()-nxt.View() > 1 {
							st.Faults["view-gap-in-committed-chain"]++
						}
						cur = nxt
					}
				}
			} else if la != 0 {
				voter := false
				for _, s := range chain[i].signers {
					if s == la {
						voter = true
					}
				}
				if head.b.QuorumCert().Signature() != nil && !voter && head.b.View() <= v-hotstuff.View(L) {
					viol("C16/reputation/not-voter", "leader %d of view %d is not among the voters %v of the latest committed block's certificate", la, v, chain[i].signers)
				}
			}
		}
	}
	res.Summary = fmt.Sprintf("leader world %s n=%d f=%d chain=%d gap=%d%% L=%d", p.Leader, n, f, k("blocks"), k("gapPct"), L)
	res.WallMs = float64(time.Since(start).Microseconds()) / 1000
	return res
}
