package zz_verifsim

import (
	"fmt"
	"io"
	"testing"
	"time"

	"github.com/relab/hotstuff"
	"github.com/relab/hotstuff/core"
	"github.com/relab/hotstuff/core/eventloop"
	"github.com/relab/hotstuff/internal/proto/clientpb"
	"github.com/relab/hotstuff/protocol"
	"github.com/relab/hotstuff/protocol/leaderrotation"
	"github.com/relab/hotstuff/security/blockchain"
	"github.com/relab/hotstuff/security/cert"
	"github.com/relab/hotstuff/security/crypto"
)

// Leader world (every third C16 seed): the history-based schemes are functions of the committed chain, the
// shared seed and the query sequence. In full cluster runs the carousel's active branch is practically
// never taken (the committed head is almost never exactly chain-length views behind the queried view), so
// this world feeds the real Carousel / RepBased instances generated committed chains — view gaps, varying
// signer sets and proposers, missing ancestors — and seeded query sequences, on two replicas' identities.

func GenLeaderPlan(seed uint64) *Plan {
	g := newGen(seed, 16)
	p := &Plan{Version: 1, Property: "C16", Seed: seed, Inner: g.u64(), World: "leader", UntilMs: 1, MaxSteps: 100000}
	p.N = pick(g, 4, 7, 7, 7, 10, 10, 13)
	p.Leader = pick(g, "carousel", "reputation")
	p.Ruleset = pick(g, "chainedhotstuff", "fasthotstuff")
	p.Knobs = map[string]int{"blocks": g.rng(3, 60), "gapPct": pick(g, 0, 20, 50), "queries": g.rng(1, 4), "missPct": pick(g, 0, 0, 10), "extraSigners": g.intn(3)}
	// a replica that catches up commits several blocks at once: the head moves over them with no query in between
	p.Knobs["skipPct"] = pick(g, 0, 30, 60)
	p.Knobs["replicas"] = pick(g, 2, 4, 4)
	if g.p(0.3) {
		// the stateless schemes, "for every view number and cluster size": any n, windows of consecutive views
		// around seeded bases that include the corners of the 64-bit view space
		p.Leader = pick(g, "round-robin", "round-robin", "fixed")
		p.N = g.rng(1, 24)
		p.Knobs["base"] = g.intn(12)
		p.Knobs["offset"] = g.intn(40)
		p.Knobs["windows"] = g.rng(1, 4)
	}
	return p
}

// runStatelessLeaders: two replicas' instances of a stateless rotation, asked the same windows of views.
func runStatelessLeaders(p *Plan, res *Result, logf func(string, ...any), viol func(string, string, ...any)) {
	st := res.Stats
	n := p.N
	bases := []uint64{0, 1 << 16, 1<<31 - 20, 1<<32 - 20, 3<<32 - 20, 1 << 40, 1<<53 - 20, 1 << 62, 1<<63 - 20, ^uint64(0) - 100, uint64(p.Inner), uint64(p.Inner) << 7}
	mk := func(id hotstuff.ID) (leaderrotation.LeaderRotation, error) {
		cfg := core.NewRuntimeConfig(id, nil, core.WithSharedRandomSeed(int64(p.Inner%1000003)))
		for i := 1; i <= n; i++ {
			cfg.AddReplica(&hotstuff.ReplicaInfo{ID: hotstuff.ID(i)})
		}
		lg := &simLogger{nd: &Node{w: &World{stats: st}}}
		el := eventloop.New(lg, 16)
		bc := blockchain.New(el, lg, &forestSender{avail: map[hotstuff.Hash]*hotstuff.Block{}})
		base, err := crypto.New(cfg, crypto.NameEDDSA)
		if err != nil {
			return nil, err
		}
		vs, err := protocol.NewViewStates(bc, cert.NewAuthority(cfg, bc, base))
		if err != nil {
			return nil, err
		}
		return leaderrotation.New(lg, cfg, bc, vs, p.Leader, 3)
	}
	a, err := mk(1)
	if err != nil {
		res.Harness = err.Error()
		return
	}
	b, err := mk(hotstuff.ID(n))
	if err != nil {
		res.Harness = err.Error()
		return
	}
	ask := func(lr leaderrotation.LeaderRotation, v hotstuff.View) (id hotstuff.ID, panicked any) {
		defer func() { panicked = recover() }()
		return lr.GetLeader(v), nil
	}
	for wdw := 0; wdw < p.knob("windows", 1) && res.Violation == nil; wdw++ {
		start := bases[(p.knob("base", 0)+wdw)%len(bases)] + uint64(p.knob("offset", 0))
		var window []hotstuff.ID
		for i := 0; i < n+3 && res.Violation == nil; i++ {
			v := hotstuff.View(start + uint64(i)) // wraps around at the very top: still "any view number"
			st.Steps++
			la, pa := ask(a, v)
			lb, pb := ask(b, v)
			logf("view %d: %d %d", v, la, lb)
			st.Probes["c16-stateless-query"]++
			if pa != nil || pb != nil {
				viol("C16/"+p.Leader+"/panic", "GetLeader(%d) panicked with n=%d: %v %v", v, n, pa, pb)
				return
			}
			if la != lb {
				viol("C16/"+p.Leader+"/disagree", "replicas 1 and %d name leaders %d and %d for view %d (n=%d)", n, la, lb, v, n)
				return
			}
			if int(la) < 1 || int(la) > n {
				viol("C16/"+p.Leader+"/unknown", "leader of view %d is %d, not one of the %d configured replicas", v, la, n)
				return
			}
			window = append(window, la)
			if p.Leader == "round-robin" && len(window) >= n && uint64(v) >= uint64(n) && uint64(v)-uint64(n)+1 <= uint64(v) {
				// every replica exactly one turn in any n consecutive views
				seen := map[hotstuff.ID]bool{}
				for _, id := range window[len(window)-n:] {
					if seen[id] {
						viol("C16/round-robin/turns", "in the %d consecutive views ending at %d replica %d leads twice (leaders %v)", n, v, id, window[len(window)-n:])
						return
					}
					seen[id] = true
				}
			}
			if p.Leader == "fixed" && la != window[0] {
				viol("C16/fixed/disagree", "the fixed leader changed from %d to %d at view %d", window[0], la, v)
				return
			}
		}
	}
}

func runLeaderWorld(t *testing.T, p *Plan, want []string, logw io.Writer) *Result {
	start := time.Now()
	res := &Result{Seed: p.Seed, Stats: newStats()}
	st := res.Stats
	g := newGen(p.Inner, 17)
	k := func(name string) int { return p.knob(name, 0) }
	logf := func(format string, a ...any) {
		line := fmt.Sprintf(format, a...)
		st.Fingerprint = mix(st.Fingerprint, hashStr(line))
		if logw != nil {
			_, _ = io.WriteString(logw, line+"\n")
		}
	}
	viol := func(class, format string, a ...any) {
		if res.Violation == nil {
			res.Violation = &Violation{Property: "C16", Class: class, Step: st.Steps, Detail: fmt.Sprintf(format, a...)}
			logf("VIOLATION %s %s", class, res.Violation.Detail)
		}
	}
	if p.Leader == "round-robin" || p.Leader == "fixed" {
		runStatelessLeaders(p, res, logf, viol)
		res.WallMs = float64(time.Since(start).Microseconds()) / 1000
		return res
	}
	n := p.N
	f := 0
	for 3*(f+1) < n {
		f++
	}
	q := quorumOf(n)
	L := 3
	if p.Ruleset == "fasthotstuff" {
		L = 2
	}
	seed := int64(p.Inner % 1000003)

	// the committed chain
	type cb struct {
		b       *hotstuff.Block
		signers []hotstuff.ID
	}
	chain := []cb{{b: hotstuff.GetGenesis()}}
	avail := map[hotstuff.Hash]*hotstuff.Block{}
	view := hotstuff.View(0)
	for i := 1; i <= k("blocks"); i++ {
		parent := chain[len(chain)-1]
		view++
		if g.intn(100) < k("gapPct") {
			view += hotstuff.View(g.rng(1, 3))
		}
		// the embedded certificate: signed by a quorum (plus a few) of distinct replicas
		ns := q + g.intn(k("extraSigners")+1)
		if ns > n {
			ns = n
		}
		ids := g.subset(n, ns)
		sig := make(crypto.Multi[*crypto.EDDSASignature], 0, ns)
		var signers []hotstuff.ID
		for _, id := range ids {
			sig = append(sig, crypto.RestoreEDDSASignature([]byte{byte(id), byte(i)}, hotstuff.ID(id)))
			signers = append(signers, hotstuff.ID(id))
		}
		var qc hotstuff.QuorumCert
		if len(chain) == 1 {
			qc = hotstuff.NewQuorumCert(nil, 0, hotstuff.GetGenesis().Hash())
			if g.p(0.5) {
				qc = hotstuff.NewQuorumCert(sig, 0, hotstuff.GetGenesis().Hash())
			}
			if g.p(0.3) {
				// the genesis certificate is valid whatever its signature field says (verification returns early for
				// the genesis hash), so a Byzantine leader of an early view can put anything there: nobody, or
				// only itself
				few := make(crypto.Multi[*crypto.EDDSASignature], 0, 1)
				signers = nil
				if g.p(0.5) {
					pid := hotstuff.ID(g.rng(1, n))
					few = append(few, crypto.RestoreEDDSASignature([]byte{byte(pid), 0}, pid))
					signers = []hotstuff.ID{pid}
				}
				qc = hotstuff.NewQuorumCert(few, 0, hotstuff.GetGenesis().Hash())
				st.Faults["genesis-certificate-with-odd-signers"]++
			}
			// such a block can only be on a committed chain if replicas accept its certificate: ask the
			// repository's own verification (which does not look at the signature bytes of a genesis certificate)
			if qc.Signature() != nil && !genesisQCAccepted(n, qc) {
				// ... or if a replica can be handed the block without any verification: a block fetched from a peer is
				// checked by hash only, so a variant of the honest block (unsigned genesis certificate) with the same hash
				// can be planted by whoever answers the fetch
				honest := hotstuff.NewBlock(parent.b.Hash(), hotstuff.NewQuorumCert(nil, 0, hotstuff.GetGenesis().Hash()), &clientpb.Batch{}, view, 1)
				variant := hotstuff.NewBlock(parent.b.Hash(), qc, &clientpb.Batch{}, view, 1)
				variant.SetTimestamp(honest.Timestamp())
				if variant.Hash() == honest.Hash() {
					st.Faults["genesis-certificate-variant-with-the-honest-hash"]++
				} else {
					st.Probes["c16-signed-genesis-certificate-rejected"]++
					qc = hotstuff.NewQuorumCert(nil, 0, hotstuff.GetGenesis().Hash())
					signers = nil
				}
			}
		} else {
			qc = hotstuff.NewQuorumCert(sig, parent.b.View(), parent.b.Hash())
		}
		b := hotstuff.NewBlock(parent.b.Hash(), qc, &clientpb.Batch{}, view, hotstuff.ID(g.rng(1, n)))
		chain = append(chain, cb{b: b, signers: signers})
		if g.intn(100) >= k("missPct") {
			avail[b.Hash()] = b
		}
	}
	mk := func(id hotstuff.ID) (leaderrotation.LeaderRotation, *protocol.ViewStates, error) {
		cfg := core.NewRuntimeConfig(id, nil, core.WithSharedRandomSeed(seed))
		for i := 1; i <= n; i++ {
			cfg.AddReplica(&hotstuff.ReplicaInfo{ID: hotstuff.ID(i)})
		}
		lg := &simLogger{nd: &Node{w: &World{stats: st}}}
		el := eventloop.New(lg, 16)
		snd := &forestSender{avail: avail}
		bc := blockchain.New(el, lg, snd)
		base, err := crypto.New(cfg, crypto.NameEDDSA)
		if err != nil {
			return nil, nil, err
		}
		vs, err := protocol.NewViewStates(bc, cert.NewAuthority(cfg, bc, base))
		if err != nil {
			return nil, nil, err
		}
		lr, err := leaderrotation.New(lg, cfg, bc, vs, p.Leader, L)
		return lr, vs, err
	}
	a, va, err := mk(1)
	if err != nil {
		res.Harness = err.Error()
		return res
	}
	b, vb, err := mk(hotstuff.ID(n))
	if err != nil {
		res.Harness = err.Error()
		return res
	}
	ask := func(lr leaderrotation.LeaderRotation, v hotstuff.View) (id hotstuff.ID, panicked any) {
		defer func() { panicked = recover() }()
		return lr.GetLeader(v), nil
	}
	// (plans with the knob "replicas": two more instances, so that a result that depends on anything but the history
	// has more chances to show)
	var extra []leaderrotation.LeaderRotation
	var extraVS []*protocol.ViewStates
	var extraIDs []hotstuff.ID
	if k("replicas") > 2 && n >= 4 {
		for _, id := range []hotstuff.ID{2, hotstuff.ID((n + 1) / 2)} {
			x, vx, err := mk(id)
			if err != nil {
				res.Harness = err.Error()
				return res
			}
			extra, extraVS, extraIDs = append(extra, x), append(extraVS, vx), append(extraIDs, id)
		}
	}
	for i := 1; i < len(chain) && res.Violation == nil; i++ {
		head := chain[i]
		va.UpdateCommittedBlock(head.b)
		vb.UpdateCommittedBlock(head.b)
		for _, vx := range extraVS {
			vx.UpdateCommittedBlock(head.b)
		}
		if sp := k("skipPct"); sp > 0 && i+1 < len(chain) && g.intn(100) < sp {
			st.Faults["commit-head-moved-without-query"]++
			continue
		}
		for qn := 0; qn < k("queries") && res.Violation == nil; qn++ {
			st.Steps++
			// mostly the view at which the carousel is active for this head, sometimes around it
			v := head.b.View() + hotstuff.View(L)
			switch g.intn(6) {
			case 0:
				v++
			case 1:
				v += hotstuff.View(g.rng(2, 9))
			case 2:
				if v > 1 {
					v--
				}
			case 3:
				if k("skipPct") > 0 && g.intn(3) == 0 {
					v = hotstuff.View(g.intn(4)) // views below the chain length: view - chainLength must not wrap around
					st.Probes["c16-query-below-chain-length"]++
				}
			}
			la, pa := ask(a, v)
			lb, pb := ask(b, v)
			logf("head=v%d proposer=%d query view %d -> %d / %d", head.b.View(), head.b.Proposer(), v, la, lb)
			// further replicas with the same history: they must say the same as the first
			for xi, x := range extra {
				lx, px := ask(x, v)
				if px != nil && pa == nil {
					pa = px
				}
				if lx != la && lb == la {
					lb = lx
					logf("replica %d says %d", extraIDs[xi], lx)
				}
			}
			if pa != nil || pb != nil {
				viol("C16/"+p.Leader+"/panic", "GetLeader(%d) panicked with committed head of view %d: %v %v", v, head.b.View(), pa, pb)
				break
			}
			st.Probes["c16-query"]++
			if la != lb {
				viol("C16/"+p.Leader+"/disagree", "replicas 1 and %d, with the same committed head (view %d) and the same queries, name %d and %d leader of view %d", n, head.b.View(), la, lb, v)
				break
			}
			if p.Leader == "carousel" {
				if int(la) < 1 || int(la) > n {
					viol("C16/carousel/unknown", "leader of view %d is %d, not a configured replica", v, la)
					break
				}
				if head.b.QuorumCert().Signature() != nil && head.b.View() == v-hotstuff.View(L) {
					st.Probes["c16-carousel-active"]++
					signed := false
					for _, s := range chain[i].signers {
						if s == la {
							signed = true
						}
					}
					// the certificate embedded in the head was signed by chain[i].signers
					if !signed {
						viol("C16/carousel/carousel-rule", "leader %d of view %d did not sign the certificate embedded in the latest committed block (view %d, signers %v)", la, v, head.b.View(), chain[i].signers)
						break
					}
					// last f committed blocks, as far as the replica can see them
					cur := head.b
					for j := 0; j < f && cur != nil && cur.View() > 0; j++ {
						if cur.Proposer() == la {
							viol("C16/carousel/carousel-rule", "leader %d of view %d proposed one of the last %d committed blocks (the block of view %d)", la, v, f, cur.View())
							break
						}
						if j > 0 {
							st.Probes["c16-carousel-looked-back"]++
						}
						nxt, ok := avail[cur.Parent()]
						if !ok {
							if cur.Parent() == hotstuff.GetGenesis().Hash() {
								break
							}
							st.Faults["ancestor-missing"]++
							break
						}
						if cur.View()-nxt.View() > 1 {
							st.Faults["view-gap-in-committed-chain"]++
						}
						cur = nxt
					}
				}
			} else if la != 0 {
				voter := false
				for _, s := range chain[i].signers {
					if s == la {
						voter = true
					}
				}
				if head.b.QuorumCert().Signature() != nil && !voter && head.b.View() <= v-hotstuff.View(L) {
					viol("C16/reputation/not-voter", "leader %d of view %d is not among the voters %v of the latest committed block's certificate", la, v, chain[i].signers)
				}
			}
		}
	}
	res.Summary = fmt.Sprintf("leader world %s n=%d f=%d chain=%d gap=%d%% L=%d", p.Leader, n, f, k("blocks"), k("gapPct"), L)
	res.WallMs = float64(time.Since(start).Microseconds()) / 1000
	return res
}


// genesisQCAccepted: does the repository's certificate verification accept this certificate for the genesis block?
func genesisQCAccepted(n int, qc hotstuff.QuorumCert) bool {
	cfg := core.NewRuntimeConfig(1, nil)
	for i := 1; i <= n; i++ {
		cfg.AddReplica(&hotstuff.ReplicaInfo{ID: hotstuff.ID(i)})
	}
	lg := &simLogger{nd: &Node{w: &World{stats: newStats()}}}
	el := eventloop.New(lg, 16)
	bc := blockchain.New(el, lg, &forestSender{avail: map[hotstuff.Hash]*hotstuff.Block{}})
	base, err := crypto.New(cfg, crypto.NameEDDSA)
	if err != nil {
		return false
	}
	ok := false
	func() {
		defer func() { _ = recover() }()
		ok = cert.NewAuthority(cfg, bc, base).VerifyQuorumCert(qc) == nil
	}()
	return ok
}
