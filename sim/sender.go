package zz_verifsim

import (
	"context"
	"fmt"
	"strconv"
	"time"

	"github.com/relab/gorums"
	"github.com/relab/hotstuff"
	"github.com/relab/hotstuff/core"
	"github.com/relab/hotstuff/internal/proto/hotstuffpb"
	"github.com/relab/hotstuff/internal/proto/kauripb"
	"github.com/relab/hotstuff/network"
	"google.golang.org/grpc/metadata"
	"google.golang.org/grpc/peer"
	"google.golang.org/protobuf/proto"
)

// Msg is one replica-to-replica message in flight.
type Msg struct {
	from   *Node // nil for messages injected on behalf of a Byzantine identity without a stack
	fromID hotstuff.ID
	to     *Node
	kind   string // propose | vote | newview | timeout
	val    any    // the Go value handed to Sender (struct mode payload; also the oracle's view of honest traffic)
	wire   []byte // marshalled protobuf (wire mode)
	sym    string
	forged bool // crafted by the adversary (not produced by a real stack)
	anon   int  // 0: the sender's connection metadata names it; 1: no "id" entry; 2: an id that is no configured replica; 3: id 0
	n      uint64
}

// ---- network state -----------------------------------------------------------------------------

type netState struct {
	group    map[int]int // address -> partition group; nil when fully connected
	linkDown map[[2]int]time.Duration
	sent     map[[2]int]uint64
}

func (n *netState) connected(a, b int, now time.Duration) bool {
	if n.group != nil {
		ga, oka := n.group[a]
		gb, okb := n.group[b]
		if !oka || !okb || ga != gb {
			return false
		}
	}
	if until, ok := n.linkDown[[2]int{a, b}]; ok && now < until {
		return false
	}
	return true
}

// syncPhaseFor reports whether nd is a member of the designated synchronous quorum and the
// fault schedule has stopped for it (C05 plans only).
func (w *World) syncPhaseFor(nd *Node) bool {
	p := w.plan
	if p.Sync == nil || !w.healed || nd.twin {
		return false
	}
	for _, id := range p.Sync {
		if id == int(nd.id) {
			return true
		}
	}
	return false
}

// ---- the only network the system sees ----------------------------------------------------------

type simSender struct {
	w        *World
	nd       *Node
	sub      []hotstuff.ID
	fetchCtr uint64
}

var _ core.KauriSender = (*simSender)(nil)

// SendContributionToParent sends the (partial) aggregate up the Kauri tree.
func (s *simSender) SendContributionToParent(view hotstuff.View, sig hotstuff.QuorumSignature) {
	tr := s.nd.cfg.Tree()
	if tr == nil {
		return
	}
	parent, ok := tr.Parent()
	if !ok {
		return
	}
	c := &kauripb.Contribution{ID: uint32(s.nd.id), Signature: hotstuffpb.QuorumSignatureToProto(sig), View: uint64(view)}
	s.w.probe("kauri-contribution-sent")
	for _, f := range s.w.hooks.onContribution {
		f(s.nd, view, sig)
	}
	if s.w.adv != nil && s.w.adv.anonContribution(s.nd, parent, c) {
		return
	}
	s.w.send(s.nd, parent, "contrib", c)
	if s.w.adv != nil {
		s.w.adv.onContribution(s.nd, view, sig)
	}
}

func (s *simSender) targets() []hotstuff.ID {
	var ids []hotstuff.ID
	for id := 1; id <= s.w.plan.N; id++ {
		if hotstuff.ID(id) == s.nd.id {
			continue // no self delivery (nor to one's twin), as in the gorums configuration
		}
		if s.sub != nil {
			found := false
			for _, x := range s.sub {
				if x == hotstuff.ID(id) {
					found = true
				}
			}
			if !found {
				continue
			}
		}
		ids = append(ids, hotstuff.ID(id))
	}
	return ids
}

func (s *simSender) Propose(p *hotstuff.ProposeMsg) {
	s.w.reg.add(p.Block, s.nd)
	if tr := s.nd.cfg.Tree(); tr != nil && s.sub != nil {
		// Kauri starts its aggregation wait timer (a sleeping goroutine) right after forwarding the proposal
		nd := s.nd
		s.w.after(tr.WaitTime()+time.Duration(nd.slot+1)*time.Nanosecond, "kauri-wait", func() { s.w.scheduleProcess(nd, 0) })
	}
	if s.w.adv != nil && s.w.adv.onPropose(s.nd, p) {
		return // the adversary took over dissemination
	}
	for _, id := range s.targets() {
		s.w.send(s.nd, id, "propose", *p)
	}
}

func (s *simSender) Timeout(m hotstuff.TimeoutMsg) {
	if s.w.adv != nil && s.w.adv.onTimeout(s.nd, &m) {
		return
	}
	for _, id := range s.targets() {
		s.w.send(s.nd, id, "timeout", m)
	}
}

func (s *simSender) Vote(id hotstuff.ID, c hotstuff.PartialCert) error {
	if int(id) < 1 || int(id) > s.w.plan.N {
		return fmt.Errorf("replica does not exist (id=%d)", id)
	}
	if id == s.nd.id {
		return nil // gorums sender: no node for self, silently nothing
	}
	if s.w.adv != nil && s.w.adv.onVote(s.nd, id, &c) {
		return nil
	}
	s.w.send(s.nd, id, "vote", hotstuff.VoteMsg{ID: s.nd.id, PartialCert: c})
	return nil
}

func (s *simSender) NewView(id hotstuff.ID, si hotstuff.SyncInfo) error {
	if int(id) < 1 || int(id) > s.w.plan.N {
		return fmt.Errorf("replica does not exist (id=%d)", id)
	}
	if id == s.nd.id {
		return nil
	}
	if s.w.adv != nil && s.w.adv.onNewView(s.nd, id, &si) {
		return nil
	}
	s.w.send(s.nd, id, "newview", hotstuff.NewViewMsg{ID: s.nd.id, SyncInfo: si, FromNetwork: true})
	return nil
}

func (s *simSender) Sub(ids []hotstuff.ID) (core.Sender, error) {
	return &simSender{w: s.w, nd: s.nd, sub: ids}, nil
}

// RequestBlock is a synchronous quorum call over the currently reachable peers.
func (s *simSender) RequestBlock(_ context.Context, hash hotstuff.Hash) (*hotstuff.Block, bool) {
	w := s.w
	b, ok := w.fetch(s.nd, hash)
	w.logf("FETCH %s %s ok=%v", s.nd, w.reg.sym(hash), ok)
	for _, f := range w.hooks.onFetch {
		f(s.nd, hash, b, ok)
	}
	return b, ok
}

func (w *World) fetch(nd *Node, hash hotstuff.Hash) (*hotstuff.Block, bool) {
	if w.auditFetch {
		b := w.reg.get(hash)
		return b, b != nil
	}
	w.probe("fetch")
	nd.sender.fetchCtr++
	if w.plan.knob("ffOnce", 0) == int(nd.id) && nd.sender.fetchCtr == 1 {
		w.fault("fetch-timeout")
		return nil, false
	}
	if !w.syncPhaseFor(nd) && w.plan.FetchFail > 0 &&
		unit(mix(w.plan.Inner, 0x66657463, uint64(nd.slot), nd.sender.fetchCtr)) < w.plan.FetchFail {
		w.fault("fetch-timeout")
		return nil, false
	}
	replies := map[uint32]*hotstuffpb.Block{}
	var structReply *hotstuff.Block
	for _, peer := range w.nodes {
		if peer == nd || peer.id == nd.id || peer.crashed || peer.pausedUntil > w.now() {
			continue
		}
		if !(w.syncPhaseFor(nd) && w.syncPhaseFor(peer)) && !w.net.connected(nd.addr, peer.addr, w.now()) {
			continue
		}
		if w.viewCut(nd, peer.addr) {
			continue
		}
		if w.adv != nil && w.adv.ll != nil && peer.id == w.adv.ll.z {
			w.fault("attack:fetch-unanswered")
			continue // the attacker does not serve blocks
		}
		if w.adv != nil && peer.byz != nil && w.plan.knob("nobatch", 0) == 1 {
			if b := w.adv.crafted[hash]; b != nil {
				// a Byzantine replica serves a block the adversary made up: the reply is what was asked for
				buf, _ := proto.Marshal(hotstuffpb.BlockToProto(b))
				cp := &hotstuffpb.Block{}
				if proto.Unmarshal(buf, cp) == nil {
					replies[uint32(peer.id)] = cp
					w.fault("made-up-block-served")
					continue
				}
			}
		}
		if w.adv != nil {
			if pb := w.adv.onFetchMalformed(peer, nd, hash); pb != nil {
				replies[uint32(peer.id)] = pb
				w.fault("malformed-fetch-reply")
				continue
			}
			if lie := w.adv.onFetch(peer, nd, hash); lie != nil {
				replies[uint32(peer.id)] = hotstuffpb.BlockToProto(lie)
				w.fault("lying-fetch-reply")
				if lie.Hash() == hash {
					// a reply that passes the hash test: the liar answers first (the quorum function takes the first reply
					// that matches, and is called as replies come in)
					replies = map[uint32]*hotstuffpb.Block{uint32(peer.id): replies[uint32(peer.id)]}
					w.fault("lying-fetch-reply-with-the-requested-hash")
					break
				}
				continue
			}
		}
		if w.plan.Wire {
			var pb *hotstuffpb.Block
			w.guard(peer, "RequestBlock", func() {
				pb, _ = peer.svc.RequestBlock(gorums.ServerCtx{Context: peerCtx(w.ctx, nd.id)}, &hotstuffpb.BlockHash{Hash: hash[:]})
			})
			if pb != nil {
				// across the wire
				buf, err := proto.Marshal(pb)
				if err == nil {
					cp := &hotstuffpb.Block{}
					if proto.Unmarshal(buf, cp) == nil {
						replies[uint32(peer.id)] = cp
						if peer.honest && hotstuffpb.BlockFromProto(cp).Hash() != hash {
							// an honest replica serves, under the requested hash, something that does not decode to a
							// block with that hash: what it stores is no longer what it stored, or the encoding lost it
							w.violate("C12", "C12/fetch/meaning", peer, "%s answers the request for %s with a block that decodes to another hash", peer, w.reg.sym(hash))
							w.violate("C13", "C13/content", peer, "%s serves under the hash of %s a block that does not have that hash", peer, w.reg.sym(hash))
						}
					}
				}
			}
		} else if b, ok := peer.bc.LocalGet(hash); ok {
			if structReply == nil {
				structReply = b
			}
			replies[uint32(peer.id)] = hotstuffpb.BlockToProto(b)
		}
	}
	if len(replies) == 0 {
		return nil, false
	}
	// the real quorum function picks the reply
	pb, ok := network.VerifRequestBlockQF(&hotstuffpb.BlockHash{Hash: hash[:]}, replies)
	if !ok {
		w.probe("fetch-no-match")
		return nil, false
	}
	w.probe("fetch-ok")
	return hotstuffpb.BlockFromProto(pb), true
}

// viewCut: the plan's partition for the view the sender is in separates it from the address to.
func (w *World) viewCut(from *Node, to int) bool {
	if len(w.plan.ViewParts) == 0 {
		return false
	}
	if cur := from.states.View(); cur != from.vcView {
		from.vcView, from.vcSince = cur, w.now()
	}
	if w.now()-from.vcSince > 3*time.Duration(w.plan.ViewDur.Ms)*time.Millisecond {
		return false // stuck in this view for three timeouts: the scenario moves on, the partition dissolves for this sender
	}
	v := int(from.states.View())
	for _, vp := range w.plan.ViewParts {
		if vp.View != v {
			continue
		}
		gf, gt := -1, -2
		for i, grp := range vp.Groups {
			for _, a := range grp {
				if a == from.addr {
					gf = i
				}
				if a == to {
					gt = i
				}
			}
		}
		return gf != gt
	}
	return false
}

// fetchable reports, without drawing anything or touching any replica, that a block fetch issued by nd at this
// instant is certain to succeed: no fetch failures are being injected and an honest, running, reachable peer holds
// the block (the quorum function picks any reply with the requested hash, so lying peers cannot spoil it).
func (w *World) fetchable(nd *Node, hash hotstuff.Hash) bool {
	if w.plan.FetchFail > 0 && !w.syncPhaseFor(nd) {
		return false
	}
	for _, peer := range w.nodes {
		if peer == nd || peer.id == nd.id || !peer.honest || peer.crashed || peer.pausedUntil > w.now() {
			continue
		}
		if !(w.syncPhaseFor(nd) && w.syncPhaseFor(peer)) && !w.net.connected(nd.addr, peer.addr, w.now()) {
			continue
		}
		if w.viewCut(nd, peer.addr) {
			continue
		}
		if _, ok := peer.bc.LocalGet(hash); ok {
			return true
		}
	}
	return false
}

func peerCtx(ctx context.Context, id hotstuff.ID) context.Context {
	ctx = peer.NewContext(ctx, &peer.Peer{})
	return metadata.NewIncomingContext(ctx, metadata.Pairs("id", strconv.Itoa(int(id))))
}

// send routes one message from a replica to every stack that carries the destination ID.
func (w *World) send(from *Node, to hotstuff.ID, kind string, val any) {
	for _, dst := range w.byID[to] {
		m := &Msg{from: from, fromID: from.id, to: dst, kind: kind, val: val}
		w.transmit(m, from.addr)
	}
}

// transmit applies the link's fate to m: loss, duplication, delay (and thereby reordering).
func (w *World) transmit(m *Msg, fromAddr int) {
	p := w.plan
	if w.ended {
		return
	}
	if m.wire == nil && p.Wire {
		if err := w.encode(m); err != nil {
			w.probe("encode-error")
			return
		}
	}
	for _, f := range w.hooks.onSend {
		f(m.from, m.to.id, m)
	}
	key := [2]int{fromAddr, m.to.addr}
	w.net.sent[key]++
	k := w.net.sent[key]
	m.n = k
	r := func(i uint64) float64 {
		return unit(mix(p.Inner, 0x6c696e6b, uint64(int64(fromAddr)+1000), uint64(int64(m.to.addr)+1000), k, i))
	}
	if m.from != nil && w.viewCut(m.from, m.to.addr) {
		w.fault("view-partition-drop")
		w.logf("VCUT %s->%s %s (sender in view %d)", addrStr(fromAddr), m.to, m.kind, m.from.states.View())
		return
	}
	synced := m.from != nil && w.syncPhaseFor(m.from) && w.syncPhaseFor(m.to)
	if !synced && r(0) < p.Links.Drop {
		w.fault("drop")
		w.logf("DROP %s->%s %s", addrStr(fromAddr), m.to, m.kind)
		return
	}
	delay := time.Duration(p.Links.BaseUs)*time.Microsecond + time.Duration(r(1)*float64(p.Links.JitterUs)*float64(time.Microsecond))
	if !synced && p.Links.SlowProb > 0 && r(2) < p.Links.SlowProb {
		delay += time.Duration(r(3) * float64(p.Links.SlowMs) * float64(time.Millisecond))
		w.fault("slow-message")
	}
	if !synced && m.from != nil && m.from.slowUntil > w.now() {
		delay += m.from.slowExtra
		w.fault("slow-node-message")
	}
	if synced {
		if max := time.Duration(p.ViewDur.Ms) * time.Millisecond / 10; delay > max {
			delay = max
		}
	}
	w.after(delay, "deliver", func() { w.deliver(m, fromAddr) })
	if r(4) < p.Links.Dup {
		w.fault("duplicate")
		d2 := delay + time.Duration(r(5)*float64(3*delay+time.Millisecond))
		w.after(d2, "deliver-dup", func() { w.deliver(m, fromAddr) })
	}
}

func addrStr(a int) string {
	if a < 0 {
		return fmt.Sprintf("n%d'", -a)
	}
	return fmt.Sprintf("n%d", a)
}

func (w *World) deliver(m *Msg, fromAddr int) {
	nd := m.to
	if nd.crashed {
		return
	}
	synced := m.from != nil && w.syncPhaseFor(m.from) && w.syncPhaseFor(nd)
	if !synced && !w.net.connected(fromAddr, nd.addr, w.now()) {
		w.fault("partition-drop")
		w.logf("CUT %s->%s %s", addrStr(fromAddr), nd, m.kind)
		return
	}
	w.logf("DLV %s->%s %s #%d", addrStr(fromAddr), nd, m.kind, m.n)
	w.curMsg = m
	for _, f := range w.hooks.onDeliver {
		f(nd, m)
	}
	w.guard(nd, "deliver "+m.kind, func() { nd.inject(m) })
	w.curMsg = nil
	if !nd.crashed {
		w.scheduleProcess(nd, w.procDelay(nd))
	}
}

// encode converts the Go value to its wire form with the real conversion functions.
func (w *World) encode(m *Msg) (err error) {
	defer func() {
		if r := recover(); r != nil {
			err = fmt.Errorf("encode panic: %v", r)
		}
	}()
	var pm proto.Message
	switch v := m.val.(type) {
	case hotstuff.ProposeMsg:
		pm = hotstuffpb.ProposalToProto(v)
	case hotstuff.VoteMsg:
		pm = hotstuffpb.PartialCertToProto(v.PartialCert)
	case hotstuff.NewViewMsg:
		pm = hotstuffpb.SyncInfoToProto(v.SyncInfo)
	case hotstuff.TimeoutMsg:
		pm = hotstuffpb.TimeoutMsgToProto(v)
	case *kauripb.Contribution:
		pm = v
	case proto.Message:
		pm = v
	default:
		return fmt.Errorf("cannot encode %T", m.val)
	}
	m.wire, err = proto.Marshal(pm)
	return err
}

// inject hands the message to the receiving replica exactly as its RPC layer would.
func (nd *Node) inject(m *Msg) {
	w := nd.w
	if m.wire != nil {
		ctx := gorums.ServerCtx{Context: peerCtx(w.ctx, m.fromID)}
		switch m.anon {
		case 1:
			// without TLS the identity of the sender is what its own connection metadata says: here it says nothing
			ctx = gorums.ServerCtx{Context: metadata.NewIncomingContext(peer.NewContext(w.ctx, &peer.Peer{}), metadata.Pairs("x", "y"))}
		case 2:
			ctx = gorums.ServerCtx{Context: peerCtx(w.ctx, hotstuff.ID(w.plan.N+7))}
		case 3:
			ctx = gorums.ServerCtx{Context: peerCtx(w.ctx, 0)}
		}
		switch m.kind {
		case "propose":
			pb := &hotstuffpb.Proposal{}
			if proto.Unmarshal(m.wire, pb) != nil {
				return
			}
			nd.svc.Propose(ctx, pb)
		case "vote":
			pb := &hotstuffpb.PartialCert{}
			if proto.Unmarshal(m.wire, pb) != nil {
				return
			}
			nd.svc.Vote(ctx, pb)
		case "newview":
			pb := &hotstuffpb.SyncInfo{}
			if proto.Unmarshal(m.wire, pb) != nil {
				return
			}
			nd.svc.NewView(ctx, pb)
		case "timeout":
			pb := &hotstuffpb.TimeoutMsg{}
			if proto.Unmarshal(m.wire, pb) != nil {
				return
			}
			nd.svc.Timeout(ctx, pb)
		case "contrib":
			pb := &kauripb.Contribution{}
			if proto.Unmarshal(m.wire, pb) != nil {
				return
			}
			nd.el.AddEvent(pb) // what kauriServiceImpl.SendContribution does
		}
		return
	}
	// struct mode: what the RPC handler would have put on the event loop
	switch v := m.val.(type) {
	case *kauripb.Contribution:
		nd.el.AddEvent(v)
	case hotstuff.ProposeMsg:
		v.ID = m.fromID
		if nd.cfg.HasKauriTree() && v.Block != nil {
			v.ID = v.Block.Proposer() // the Kauri server trusts the proposer named in the (relayed) proposal
		}
		nd.el.AddEvent(v)
	case hotstuff.VoteMsg:
		v.ID = m.fromID
		nd.el.AddEvent(v)
	case hotstuff.NewViewMsg:
		v.ID = m.fromID
		nd.el.AddEvent(v)
	case hotstuff.TimeoutMsg:
		v.ID = m.fromID
		nd.el.AddEvent(v)
	}
}
