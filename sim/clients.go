package zz_verifsim

import (
	"context"
	"crypto/sha256"
	"encoding"
	"fmt"
	"hash"
	"reflect"
	"sync"
	"time"
	"unsafe"

	"github.com/relab/gorums"
	"github.com/relab/hotstuff"
	"github.com/relab/hotstuff/internal/proto/clientpb"
)

// Closed-loop clients that use the real ClientIO.ExecCommand of every replica.
//
// A client has one command in flight: (client, seq) with a unique payload. It submits the command to
// all replicas (overlapping command sets at different leaders), waits for outcomes, re-submits the same
// command to a replica that answered with an error, and moves on to seq+1 only after some replica
// reported success. Hence a command with a higher sequence number is never submitted before the
// previous one was executed somewhere, and every (client, seq) names exactly one payload.

type cmdKey struct {
	c uint32
	s uint64
}

type outcome struct {
	nd   *Node
	key  cmdKey
	ok   bool
	step uint64
}

type clientSet struct {
	w        *World
	mu       sync.Mutex
	outcomes []outcome
	taken    int
	seq      []uint64                  // current sequence number per client (index = client-1)
	inFlight map[*Node]map[cmdKey]bool // calls that have not returned
	success  map[cmdKey]bool
	errored  map[*Node]map[cmdKey]int
	sent     map[*Node]map[cmdKey]*clientpb.Command
	started  map[cmdKey]time.Duration
	pipeCtr  uint64
	sentAt   map[*Node]map[cmdKey]time.Duration
	resent   map[*Node]map[cmdKey]int
	succ     map[*Node]map[cmdKey]int // success outcomes per replica and command
}

func newServerCtx(ctx context.Context) gorums.ServerCtx {
	sc := gorums.ServerCtx{Context: ctx}
	v := reflect.ValueOf(&sc).Elem()
	mu := &sync.Mutex{}
	mu.Lock() // Release unlocks it once
	set := func(name string, val any) {
		f := v.FieldByName(name)
		reflect.NewAt(f.Type(), unsafe.Pointer(f.UnsafeAddr())).Elem().Set(reflect.ValueOf(val))
	}
	set("once", &sync.Once{})
	set("mut", mu)
	return sc
}

func clientCmd(c uint32, s uint64) *clientpb.Command {
	return &clientpb.Command{ClientID: c, SequenceNumber: s, Data: []byte(fmt.Sprintf("c%d/%d", c, s))}
}

func newClientSet(w *World) *clientSet {
	cs := &clientSet{w: w, inFlight: map[*Node]map[cmdKey]bool{}, success: map[cmdKey]bool{}, errored: map[*Node]map[cmdKey]int{},
		sent: map[*Node]map[cmdKey]*clientpb.Command{}, started: map[cmdKey]time.Duration{}}
	cs.sentAt, cs.resent, cs.succ = map[*Node]map[cmdKey]time.Duration{}, map[*Node]map[cmdKey]int{}, map[*Node]map[cmdKey]int{}
	for _, nd := range w.nodes {
		cs.sentAt[nd], cs.resent[nd], cs.succ[nd] = map[cmdKey]time.Duration{}, map[cmdKey]int{}, map[cmdKey]int{}
		cs.inFlight[nd] = map[cmdKey]bool{}
		cs.errored[nd] = map[cmdKey]int{}
		cs.sent[nd] = map[cmdKey]*clientpb.Command{}
	}
	for c := 1; c <= w.plan.Clients; c++ {
		cs.seq = append(cs.seq, 1)
		c := c
		period := time.Duration(w.plan.ViewDur.Ms) * time.Millisecond / 4
		var tick func()
		pipelined := w.plan.knob("pipeline", 0) > 1 && c%2 == 0
		tick = func() {
			if pipelined {
				cs.drivePipelined(uint32(c))
			} else {
				cs.drive(uint32(c))
			}
			w.after(period+time.Duration(c)*time.Microsecond, "client", tick)
		}
		w.at(time.Duration(c)*time.Microsecond, "client", tick)
	}
	return cs
}

// collect moves finished calls into the deterministic part of the world (called on the driver only,
// after synctest.Wait, so every goroutine that could record has recorded).
func (cs *clientSet) collect() []outcome {
	cs.mu.Lock()
	defer cs.mu.Unlock()
	news := cs.outcomes[cs.taken:]
	cs.taken = len(cs.outcomes)
	for _, o := range news {
		delete(cs.inFlight[o.nd], o.key)
		if o.ok {
			cs.success[o.key] = true
		} else {
			cs.errored[o.nd][o.key]++
		}
	}
	return news
}

func (cs *clientSet) drive(c uint32) {
	w := cs.w
	cs.collect()
	s := cs.seq[c-1]
	if cs.success[cmdKey{c, s}] {
		s++
		cs.seq[c-1] = s
		w.probe("c06-client-next")
	}
	key := cmdKey{c, s}
	for _, nd := range w.nodes {
		if !nd.crashed && nd.pausedUntil <= w.now() && cs.inFlight[nd][key] && w.plan.knob("retransmit", 0) == 1 &&
			w.now()-cs.sentAt[nd][key] > time.Duration(w.plan.ViewDur.Ms)*time.Millisecond && cs.resent[nd][key] < 2 {
			// no answer for a whole view duration: the client sends the command again (same client, same sequence
			// number, a new message) while its first call is still waiting
			cs.resent[nd][key]++
			cs.sentAt[nd][key] = w.now()
			cmd := clientCmd(c, s)
			nd := nd
			w.fault("client-retransmission")
			go func() {
				_, err := nd.cio.ExecCommand(newServerCtx(w.ctx), cmd)
				cs.mu.Lock()
				cs.outcomes = append(cs.outcomes, outcome{nd: nd, key: key, ok: err == nil})
				cs.mu.Unlock()
			}()
			continue
		}
		if nd.crashed || nd.pausedUntil > w.now() || cs.inFlight[nd][key] {
			continue
		}
		if _, ever := cs.sent[nd][key]; ever && cs.errored[nd][key] == 0 {
			continue // already answered with success here
		}
		if cs.errored[nd][key] > 3 {
			continue
		}
		cmd := clientCmd(c, s)
		cs.sent[nd][key] = cmd
		cs.inFlight[nd][key] = true
		cs.sentAt[nd][key] = w.now()
		nd := nd
		w.probe("c06-submit")
		go func() {
			_, err := nd.cio.ExecCommand(newServerCtx(w.ctx), cmd)
			cs.mu.Lock()
			cs.outcomes = append(cs.outcomes, outcome{nd: nd, key: key, ok: err == nil})
			cs.mu.Unlock()
		}()
	}
	synctestWait() // the new calls have registered themselves and are blocked
	w.logf("CLIENT %d submits seq %d", c, s)
	for _, nd := range w.nodes {
		if !nd.crashed {
			w.scheduleProcess(nd, 0)
		}
	}
}

// drivePipelined: a client that, like the repository's own client, keeps several commands outstanding and does
// not retry. Each command reaches each replica after its own delay, so a replica may receive seq+1 before seq.
func (cs *clientSet) drivePipelined(c uint32) {
	w := cs.w
	cs.collect()
	win := uint64(w.plan.knob("pipeline", 2))
	base := cs.seq[c-1]
	// the oldest outstanding command is finished once a quorum of replicas has answered, or it is old
	for {
		key := cmdKey{c, base}
		answered := 0
		for _, nd := range w.nodes {
			if _, ever := cs.sent[nd][key]; ever && !cs.inFlight[nd][key] {
				answered++
			}
		}
		started, ok := cs.started[key]
		if ok && (answered >= w.orc.q || w.now()-started > 6*time.Duration(w.plan.ViewDur.Ms)*time.Millisecond) {
			base++
			cs.seq[c-1] = base
			w.probe("c06-client-next")
			continue
		}
		break
	}
	for s := base; s < base+win; s++ {
		key := cmdKey{c, s}
		if _, ok := cs.started[key]; ok {
			continue
		}
		cs.started[key] = w.now()
		for _, nd := range w.nodes {
			nd := nd
			cs.pipeCtr++
			d := time.Duration(mix(w.plan.Inner, 0x70697065, uint64(nd.slot), cs.pipeCtr)%uint64(w.plan.ViewDur.Ms*500+1)) * time.Microsecond
			w.after(d, "client-submit", func() {
				if nd.crashed || nd.pausedUntil > w.now() || w.ended {
					return
				}
				cmd := clientCmd(c, key.s)
				cs.sent[nd][key] = cmd
				cs.inFlight[nd][key] = true
				w.probe("c06-submit-pipelined")
				go func() {
					_, err := nd.cio.ExecCommand(newServerCtx(w.ctx), cmd)
					cs.mu.Lock()
					cs.outcomes = append(cs.outcomes, outcome{nd: nd, key: key, ok: err == nil})
					cs.mu.Unlock()
				}()
				synctestWait()
				w.scheduleProcess(nd, 0)
			})
		}
	}
}

// shutdown releases every call that is still waiting, so that no goroutine outlives the bubble.
func (cs *clientSet) shutdown() {
	for _, nd := range cs.w.nodes {
		var cmds []*clientpb.Command
		for key := range cs.inFlight[nd] {
			if cmd := cs.sent[nd][key]; cmd != nil {
				cmds = append(cmds, cmd)
			}
		}
		if len(cmds) > 0 {
			nd.cio.Abort(&clientpb.Batch{Commands: cmds})
		}
	}
	synctestWait()
}

// ---- C06: same commands, exactly once, in chain order -----------------------------------------------

type c06node struct {
	pendingExec []*clientpb.Batch // batches of committed blocks whose ExecuteEvent has not been seen
	hasher      hash.Hash         // the reference application: hash chain over executed payloads
	count       uint32
	executed    map[cmdKey]bool
	maxSeq      map[uint32]uint64
	order       []cmdKey
	expectExec  *clientpb.Batch
}

func monC06(w *World) {
	st := map[*Node]*c06node{}
	get := func(nd *Node) *c06node {
		if st[nd] == nil {
			st[nd] = &c06node{hasher: sha256.New(), executed: map[cmdKey]bool{}, maxSeq: map[uint32]uint64{}}
		}
		return st[nd]
	}
	var global []cmdKey // execution index -> command, fixed by the first honest replica to get there
	var globalData [][32]byte // ... and the payload that replica executed for it
	tag := func(nd *Node) string {
		if nd.overflowed {
			return "@queue-overflow"
		}
		return ""
	}
	w.hooks.onCommit = append(w.hooks.onCommit, func(nd *Node, b *hotstuff.Block) {
		if !nd.honest {
			return
		}
		s := get(nd)
		s.pendingExec = append(s.pendingExec, b.Commands())
	})
	w.hooks.onExec = append(w.hooks.onExec, func(nd *Node, ev any) {
		e, ok := ev.(clientpb.ExecuteEvent)
		if !ok || !nd.honest {
			return
		}
		s := get(nd)
		// (a) the application is handed exactly the batches of the committed blocks, in commit order
		if len(s.pendingExec) == 0 || s.pendingExec[0] != e.Batch {
			w.violate("C06", "C06/order"+tag(nd), nd, "%s hands the application a batch that is not the batch of its next committed block", nd)
			return
		}
		s.pendingExec = s.pendingExec[1:]
		s.expectExec = e.Batch
	})
	clone := func(h hash.Hash) hash.Hash {
		b, _ := h.(encoding.BinaryMarshaler).MarshalBinary()
		n := sha256.New()
		_ = n.(encoding.BinaryUnmarshaler).UnmarshalBinary(b)
		return n
	}
	w.hooks.afterStep = append(w.hooks.afterStep, func(nd *Node) {
		if !nd.honest || w.viol != nil {
			return
		}
		s := get(nd)
		if s.expectExec != nil {
			batch := s.expectExec
			s.expectExec = nil
			cmds := batch.GetCommands()
			// (b) which of the batch's commands did the application execute? Find the subsequence that
			// explains the new digest and count (payloads are unique, so it is unambiguous).
			gotCount := nd.cio.CmdCount()
			gotSum := nd.cio.Hash().Sum(nil)
			found := -1
			for mask := 0; mask < 1<<uint(len(cmds)); mask++ {
				h := clone(s.hasher)
				n := uint32(0)
				for i, c := range cmds {
					if mask&(1<<uint(i)) != 0 {
						_, _ = h.Write(c.Data)
						n++
					}
				}
				if s.count+n == gotCount && string(h.Sum(nil)) == string(gotSum) {
					found = mask
					break
				}
			}
			w.probe("c06-exec-checked")
			if found < 0 {
				w.violate("C06", "C06/digest"+tag(nd), nd, "%s: after executing a committed batch of %d commands the application digest is not the hash chain of any subsequence of them (count %d -> %d)", nd, len(cmds), s.count, gotCount)
				return
			}
			for i, c := range cmds {
				key := cmdKey{c.ClientID, c.SequenceNumber}
				if found&(1<<uint(i)) == 0 {
					// skipped: only legitimate for a command executed before, or overtaken by a later one of its client
					if !s.executed[key] && c.SequenceNumber > s.maxSeq[c.ClientID] {
						w.violate("C06", "C06/skipped"+tag(nd), nd, "%s did not execute command (%d,%d) of a committed block although it was never executed before", nd, c.ClientID, c.SequenceNumber)
						return
					}
					w.probe("c06-duplicate-suppressed")
					continue
				}
				if s.executed[key] {
					w.violate("C06", "C06/twice"+tag(nd), nd, "%s executed command (%d,%d) twice", nd, c.ClientID, c.SequenceNumber)
					return
				}
				s.executed[key] = true
				if c.SequenceNumber > s.maxSeq[c.ClientID] {
					s.maxSeq[c.ClientID] = c.SequenceNumber
				}
				_, _ = s.hasher.Write(c.Data)
				s.count++
				// (c) executed sequences of honest replicas are prefix-related
				idx := len(s.order)
				s.order = append(s.order, key)
				if idx < len(global) {
					if global[idx] != key {
						w.violate("C06", "C06/cross"+tag(nd), nd, "%s executed (%d,%d) as its command number %d, another honest replica executed (%d,%d) there", nd, key.c, key.s, idx+1, global[idx].c, global[idx].s)
						return
					}
					if globalData[idx] != sha256.Sum256(c.Data) {
						w.violate("C06", "C06/cross-payload"+tag(nd), nd, "%s executed command (%d,%d) as its number %d with another payload than the honest replica that executed it first", nd, key.c, key.s, idx+1)
						return
					}
				} else {
					global = append(global, key)
					globalData = append(globalData, sha256.Sum256(c.Data))
				}
			}
		}
		// (d) a success outcome only after this replica executed the command
		if w.clients != nil {
			for _, o := range w.clients.collect() {
				if !o.nd.honest {
					continue
				}
				w.probe("c06-outcome")
				if o.ok {
					w.probe("c06-outcome-success")
					if !get(o.nd).executed[o.key] {
						w.violate("C06", "C06/early-success"+tag(o.nd), o.nd, "%s reported success for command (%d,%d) which it has not executed", o.nd, o.key.c, o.key.s)
						return
					}
					// a command is executed once, so it succeeds once: later calls for it are told that it was already executed
					w.clients.succ[o.nd][o.key]++
					if w.clients.succ[o.nd][o.key] > 1 {
						w.violate("C06", "C06/two-successes"+tag(o.nd), o.nd, "%s reported success for command (%d,%d) twice", o.nd, o.key.c, o.key.s)
						return
					}
				}
			}
		}
	})
}
