package zz_verifsim

import (
	"bytes"
	"encoding/binary"
	bls12 "github.com/kilic/bls12-381"
	"fmt"
	"time"

	"github.com/relab/hotstuff"
	"github.com/relab/hotstuff/internal/proto/clientpb"
	"github.com/relab/hotstuff/internal/proto/hotstuffpb"
	"github.com/relab/hotstuff/internal/proto/kauripb"
	"github.com/relab/hotstuff/security/crypto"
)

// adversary drives the scripted Byzantine replicas. A Byzantine replica is a real stack (so it
// follows the protocol state and collects real certificates) whose outgoing traffic the adversary
// may replace or supplement. It can only sign with its own key; everything else it uses are
// signatures and certificates that Byzantine replicas have actually received or produced.
type adversary struct {
	w   *World
	ctr uint64

	qcs    []hotstuff.QuorumCert // certificates seen by Byzantine replicas
	tcs    []hotstuff.TimeoutCert
	aggs   []hotstuff.AggregateQC
	votes  []hotstuff.PartialCert
	touts  []hotstuff.TimeoutMsg
	blocks []*hotstuff.Block // blocks crafted by the adversary
	lies   map[hotstuff.Hash]*hotstuff.Block
	crafted map[hotstuff.Hash]*hotstuff.Block // made-up blocks by hash: their makers serve them (knob nobatch)
	fz     *fuzzer
	seen   map[hotstuff.View]*hotstuff.Block // proposals of honest leaders seen by a Byzantine replica, by view
	ll     *lockless
	fs     *fhsStale
	fh     *fhsHide
	ff     *forgeFork
}

// forgeFork is a directed attack that turns any accepted forgery into disagreement: the Byzantine replica Z leads every
// view and certifies its own blocks with certificates of one forged shape (knob ffKind). It shows the chain X1 <- X2 <- ...
// to replica A and the chain Y1 <- Y2 <- ... to replica B, one view at a time. As long as every forged certificate is
// rejected nothing happens; if the shape is accepted, A commits X1 and B commits Y1.
type forgeFork struct {
	z, a, b hotstuff.ID
	kind    int
	phase   int
	at      time.Duration
	x, y    []*hotstuff.Block
}

// fhsHide is a directed attack on Fast-HotStuff with aggregate QCs ("a certified chain nobody reports"): the Byzantine
// replica Z leads views 1-3 and 5 onwards, sends only genuine certificates built from the honest votes it was sent,
// and never sends a timeout. Every view ends by timeout (the honest replicas' timers).
//
//	view 1  Z proposes B1 to all; the votes come to Z (leader of view 2)
//	view 2  Z proposes B2 (certificate for B1) to all
//	view 3  Z proposes B3 (certificate for B2) to A and B only: they commit B1
//	view 4  the honest leader A proposes on the aggregate of the honest timeouts of view 3
//	view 5+ Z certifies A's block, proposes two more blocks on top of it: everybody commits A's block
//
// If the honest replicas' timeouts of view 3 do not report the certificates they have seen, A's block extends
// genesis, and A and B commit it after B1.
type fhsHide struct {
	z, a, b, c hotstuff.ID
	phase      int
	blk        map[string]*hotstuff.Block
}

// fhsStale is a directed attack on Fast-HotStuff with aggregate QCs ("a vote without the certificate"): the Byzantine
// replica Z leads every view, sends only genuine certificates, and the scheduler delays what one replica sends
// during two views. One block fetch of R times out.
//
//	view 1  Z proposes G to H1 and H2; they vote. The view ends by timeout (K1); R has never seen G
//	view 2  Z proposes P (certificate for G) to R and H1. R's first fetch of G times out, its second one succeeds: R votes.
//	        H1's messages to R and H2 are delayed from here on. Z sends its own timeouts (genesis certificate)
//	view 3  H1 gets B3 (certificate for P) and commits G.
//	        R and H2 get X3 on top of genesis with the aggregate of the view-2 timeouts of R, H2 and Z, then X4, X5
//
// If R voted for P without raising its high QC to the certificate for G, its timeout of view 2 reports genesis, the
// aggregate is valid, and R and H2 commit X3 beside G.
type fhsStale struct {
	z, r, h1, h2 hotstuff.ID
	phase        int
	blk          map[string]*hotstuff.Block
	sentTO       map[hotstuff.View]bool
}

// lockless is a directed attack on the lock ("vote without being able to lock"): the Byzantine replica Z leads every
// view but the second, and the scheduler (which is the adversary's) takes down the victim's links at two moments.
//
//	view 1  Z proposes B1 to C and W only
//	view 2  the honest leader C certifies B1 and proposes B2; the victim V is cut off and misses it
//	        V (links up) is shown the certificate for B2, fetches B2 - only B2 - and enters view 3
//	view 3  V (links down again) gets B3 on top of B2: it can evaluate the vote rule, but cannot fetch B1
//	view 4  C gets B4 and commits B1; V and W get X4 on top of genesis, later X5, X6, X7
//
// If V voted for B3 without locking B1 it votes for X4 as well, and V and W commit X4.
type lockless struct {
	z, c, v, w2 hotstuff.ID
	phase       int
	b           map[string]*hotstuff.Block
	at          time.Duration
}

func newAdversary(w *World) *adversary {
	a := &adversary{w: w, lies: map[hotstuff.Hash]*hotstuff.Block{}}
	if len(w.plan.Inject) > 0 {
		a.fz = newFuzzer(w)
	}
	a.seen = map[hotstuff.View]*hotstuff.Block{}
	for _, b := range w.plan.Byz {
		if b.Kind == "script" && has(b.Acts, "lockless") && w.plan.N == 4 && a.ll == nil {
			ll := &lockless{z: hotstuff.ID(b.ID), b: map[string]*hotstuff.Block{}}
			ll.c, ll.v, ll.w2 = hotstuff.ID(w.plan.knob("llC", 0)), hotstuff.ID(w.plan.knob("llV", 0)), hotstuff.ID(w.plan.knob("llW", 0))
			if ll.c == 0 || ll.v == 0 || ll.w2 == 0 {
				continue
			}
			a.ll = ll
			w.after(time.Millisecond, "lockless", func() { a.locklessStep() })
		}
		if b.Kind == "script" && has(b.Acts, "fhsstale") && w.plan.N == 4 && a.fs == nil {
			fs := &fhsStale{z: hotstuff.ID(b.ID), blk: map[string]*hotstuff.Block{}, sentTO: map[hotstuff.View]bool{}}
			fs.r, fs.h1, fs.h2 = hotstuff.ID(w.plan.knob("fsR", 0)), hotstuff.ID(w.plan.knob("fsH1", 0)), hotstuff.ID(w.plan.knob("fsH2", 0))
			if fs.r != 0 && fs.h1 != 0 && fs.h2 != 0 {
				a.fs = fs
				w.after(time.Millisecond, "fhsstale", func() { a.fhsStaleStep() })
			}
		}
		if b.Kind == "script" && has(b.Acts, "forgefork") && a.ff == nil && w.plan.knob("ffA", 0) != 0 && w.plan.knob("ffB", 0) != 0 {
			a.ff = &forgeFork{z: hotstuff.ID(b.ID), a: hotstuff.ID(w.plan.knob("ffA", 0)), b: hotstuff.ID(w.plan.knob("ffB", 0)), kind: w.plan.knob("ffKind", 0)}
			w.after(time.Millisecond, "forgefork", func() { a.forgeForkStep() })
		}
		if b.Kind == "script" && has(b.Acts, "fhshide") && w.plan.N == 4 && a.fh == nil {
			fh := &fhsHide{z: hotstuff.ID(b.ID), blk: map[string]*hotstuff.Block{}}
			fh.a, fh.b, fh.c = hotstuff.ID(w.plan.knob("fhA", 0)), hotstuff.ID(w.plan.knob("fhB", 0)), hotstuff.ID(w.plan.knob("fhC", 0))
			if fh.a == 0 || fh.b == 0 || fh.c == 0 {
				continue
			}
			a.fh = fh
			w.after(time.Millisecond, "fhshide", func() { a.fhsHideStep() })
		}
	}
	w.hooks.onHandle = append(w.hooks.onHandle, func(nd *Node, ev any) {
		if nd.honest {
			return
		}
		switch e := ev.(type) {
		case hotstuff.ProposeMsg:
			if e.Block != nil {
				a.learnQC(e.Block.QuorumCert())
				if p := w.primary(int(e.ID)); p != nil && p.honest {
					a.seen[e.Block.View()] = e.Block
				}
			}
			if e.AggregateQC != nil {
				a.aggs = append(a.aggs, *e.AggregateQC)
			}
		case hotstuff.NewViewMsg:
			a.learnSI(e.SyncInfo)
		case hotstuff.TimeoutMsg:
			a.learnSI(e.SyncInfo)
			if len(a.touts) < 4096 {
				a.touts = append(a.touts, e)
			}
		case hotstuff.VoteMsg:
			if len(a.votes) < 4096 {
				a.votes = append(a.votes, e.PartialCert)
			}
		}
	})
	return a
}

// certify builds a certificate for b from the Byzantine replica's own signature and the honest votes it was sent.
func (a *adversary) certify(nd *Node, b *hotstuff.Block) (hotstuff.QuorumCert, bool) {
	return a.certifyWith(nd, b, quorumOf(a.w.plan.N))
}

// certifyWith builds a certificate for b from exactly need genuine votes (Z's own and what Z has been sent).
func (a *adversary) certifyWith(nd *Node, b *hotstuff.Block, need int) (hotstuff.QuorumCert, bool) {
	own := a.ownSig(nd, b.ToBytes())
	if own == nil {
		return hotstuff.QuorumCert{}, false
	}
	parts := []hotstuff.PartialCert{hotstuff.NewPartialCert(own, b.Hash())}
	got := map[hotstuff.ID]bool{nd.id: true}
	for _, v := range a.votes {
		if v.BlockHash() != b.Hash() || v.Signature() == nil || v.Signature().Participants().Len() != 1 || got[v.Signer()] {
			continue
		}
		if !a.w.orc.honestSigned(v.Signer(), b.ToBytes()) {
			continue
		}
		got[v.Signer()] = true
		parts = append(parts, v)
	}
	if len(parts) < need {
		return hotstuff.QuorumCert{}, false
	}
	qc, err := nd.auth.CreateQuorumCert(b, parts[:need])
	return qc, err == nil
}

func (a *adversary) locklessStep() {
	w, ll := a.w, a.ll
	if w.ended || w.viol != nil || ll.phase > 8 {
		return
	}
	defer w.after(500*time.Microsecond, "lockless", func() { a.locklessStep() })
	nd := w.primary(int(ll.z))
	if nd == nil || nd.crashed {
		return
	}
	link := func(x, y hotstuff.ID, up bool) {
		until := time.Duration(1 << 60)
		if up {
			until = 0
		}
		w.net.linkDown[[2]int{int(x), int(y)}] = until
		w.net.linkDown[[2]int{int(y), int(x)}] = until
	}
	cut := func(up bool) {
		link(ll.v, ll.c, up)
		link(ll.v, ll.w2, up)
		if up {
			w.fault("attack:victim-links-up")
		} else {
			w.fault("attack:victim-links-down")
		}
	}
	mk := func(name string, parent *hotstuff.Block, qc hotstuff.QuorumCert, view hotstuff.View) *hotstuff.Block {
		a.ctr++
		batch := &clientpb.Batch{Commands: []*clientpb.Command{{ClientID: 7300, SequenceNumber: a.ctr, Data: []byte(name)}}}
		b := hotstuff.NewBlock(parent.Hash(), qc, batch, view, ll.z)
		w.reg.add(b, nd)
		ll.b[name] = b
		return b
	}
	propose := func(b *hotstuff.Block, to ...hotstuff.ID) {
		for _, id := range to {
			a.sendTo(nd, id, "propose", hotstuff.ProposeMsg{ID: ll.z, Block: b})
		}
	}
	newView := func(qc hotstuff.QuorumCert, to ...hotstuff.ID) {
		for _, id := range to {
			a.sendTo(nd, id, "newview", hotstuff.NewViewMsg{ID: ll.z, SyncInfo: hotstuff.NewSyncInfoWith(qc), FromNetwork: true})
		}
	}
	g := hotstuff.GetGenesis()
	gqc := hotstuff.NewQuorumCert(nil, 0, g.Hash())
	if w.plan.knob("llMode", 0) == 1 {
		a.unanimousStep(nd, mk, propose, newView)
		return
	}
	switch ll.phase {
	case 0:
		cut(false)
		b1 := mk("B1", g, gqc, 1)
		propose(b1, ll.c, ll.w2)
		a.sendTo(nd, ll.c, "vote", hotstuff.VoteMsg{ID: ll.z, PartialCert: hotstuff.NewPartialCert(a.ownSig(nd, b1.ToBytes()), b1.Hash())})
		ll.phase = 1
		a.fired("lockless")
	case 1:
		b2 := a.seen[2]
		if b2 == nil || b2.Parent() != ll.b["B1"].Hash() {
			return
		}
		qc2, ok := a.certify(nd, b2)
		if !ok {
			return
		}
		ll.b["B2"] = b2
		cut(true)
		newView(qc2, ll.v)
		ll.at = w.now()
		ll.phase = 2
	case 2:
		if w.now()-ll.at < 2*time.Millisecond {
			return
		}
		cut(false)
		b2 := ll.b["B2"]
		qc2, _ := a.certify(nd, b2)
		propose(mk("B3", b2, qc2, 3), ll.v, ll.c)
		ll.phase = 3
	case 3:
		qc3, ok := a.certify(nd, ll.b["B3"])
		if !ok {
			return
		}
		propose(mk("B4", ll.b["B3"], qc3, 4), ll.c)
		newView(qc3, ll.v, ll.w2)
		ll.at = w.now()
		ll.phase = 4
	case 4:
		if w.now()-ll.at < 2*time.Millisecond {
			return
		}
		propose(mk("X4", g, gqc, 4), ll.v, ll.w2)
		ll.phase = 5
	case 5, 6, 7:
		prev := ll.b[fmt.Sprintf("X%d", ll.phase-1)]
		qc, ok := a.certify(nd, prev)
		if !ok {
			return
		}
		propose(mk(fmt.Sprintf("X%d", ll.phase), prev, qc, hotstuff.View(ll.phase)), ll.v, ll.w2)
		ll.phase++
	case 8:
		w.probe("attack:lockless-completed")
		ll.phase = 9
	}
}

// unanimousStep is the second script of lockless (knob llMode = 1), a directed attack on the length of the chain that
// decides ("a certificate signed by everybody is not a shorter way to decide"): Z leads every view and nobody is cut off.
//
//	views 1-3  Z proposes B1, B2, B3 to everybody; everybody votes, everybody is locked on B1
//	view 4     C alone gets B4 with a certificate for B3 that carries the votes of ALL replicas: C decides B1, no more
//	           V and W get W4 on top of B1 (the block they are locked on), later W5, W6, W7, and decide W4
//
// If C decided B2 on the strength of the unanimous certificate, the ledgers of C and of V, W diverge.
func (a *adversary) unanimousStep(nd *Node, mk func(string, *hotstuff.Block, hotstuff.QuorumCert, hotstuff.View) *hotstuff.Block,
	propose func(*hotstuff.Block, ...hotstuff.ID), newView func(hotstuff.QuorumCert, ...hotstuff.ID)) {
	w, ll := a.w, a.ll
	g := hotstuff.GetGenesis()
	switch ll.phase {
	case 0:
		propose(mk("B1", g, hotstuff.NewQuorumCert(nil, 0, g.Hash()), 1), ll.c, ll.v, ll.w2)
		ll.phase = 1
		a.fired("lockless")
	case 1, 2:
		prev := ll.b[fmt.Sprintf("B%d", ll.phase)]
		qc, ok := a.certify(nd, prev)
		if !ok {
			return
		}
		propose(mk(fmt.Sprintf("B%d", ll.phase+1), prev, qc, hotstuff.View(ll.phase+1)), ll.c, ll.v, ll.w2)
		ll.phase++
	case 3:
		all, ok := a.certifyWith(nd, ll.b["B3"], w.plan.N)
		if !ok {
			return
		}
		qc3, _ := a.certify(nd, ll.b["B3"])
		propose(mk("B4", ll.b["B3"], all, 4), ll.c)
		newView(qc3, ll.v, ll.w2)
		w.probe("attack:unanimous-certificate-shown")
		ll.at = w.now()
		ll.phase = 4
	case 4:
		if w.now()-ll.at < 2*time.Millisecond {
			return
		}
		qc1, ok := a.certify(nd, ll.b["B1"])
		if !ok {
			return
		}
		ll.b["X3"] = ll.b["B1"]
		propose(mk("X4", ll.b["B1"], qc1, 4), ll.v, ll.w2)
		ll.phase = 5
	case 5, 6, 7:
		prev := ll.b[fmt.Sprintf("X%d", ll.phase-1)]
		qc, ok := a.certify(nd, prev)
		if !ok {
			return
		}
		propose(mk(fmt.Sprintf("X%d", ll.phase), prev, qc, hotstuff.View(ll.phase)), ll.v, ll.w2)
		ll.phase++
	case 8:
		w.probe("attack:unanimous-completed")
		ll.phase = 9
	}
}

// forgedFor returns a certificate of the attack's shape for block b (votes: what Z has been sent for it).
func (a *adversary) forgedFor(nd *Node, b *hotstuff.Block, kind int) (hotstuff.QuorumCert, bool) {
	w := a.w
	q := w.orc.q
	own := a.ownSig(nd, b.ToBytes())
	if own == nil {
		return hotstuff.QuorumCert{}, false
	}
	var vote hotstuff.QuorumSignature
	for _, v := range a.votes {
		if v.BlockHash() == b.Hash() && v.Signer() != nd.id && v.Signature() != nil && v.Signature().Participants().Len() == 1 {
			vote = v.Signature()
		}
	}
	var ids []hotstuff.ID
	for _, id := range a.others(nd) {
		if len(ids) < q-1 {
			ids = append(ids, id)
		}
	}
	var sig hotstuff.QuorumSignature
	switch kind {
	case 0:
		sig = repeatSig(own, q)
	case 1, 2, 3:
		sig = oneValidSig(w.plan.Crypto, own, nd.id, ids, kind-1)
	case 4:
		if vote != nil {
			if c, err := nd.raw.Combine(own, vote); err == nil {
				sig = c // two genuine signers: below the quorum
			}
		}
	case 5:
		sig = own
	case 6:
		sig = emptySig(w.plan.Crypto)
	case 7:
		if vote != nil {
			sig = repeatOtherSig(own, vote, q-1)
		}
	case 8:
		return hotstuff.NewQuorumCert(nil, b.View(), b.Hash()), true
	case 9:
		if vote != nil {
			sig = sandwichSig(own, vote) // own, the victim's genuine vote, own again: repeats that are not neighbours
		}
	case 10:
		// (BLS) the genuine aggregate of one or two signers, its bit field filled up with replicas that do not exist
		sig = ghostBLS(own, w.plan.N, q)
		if vote != nil {
			if c, err := nd.raw.Combine(own, vote); err == nil {
				sig = ghostBLS(c, w.plan.N, q)
			}
		}
	}
	if sig == nil {
		return hotstuff.QuorumCert{}, false
	}
	return hotstuff.NewQuorumCert(sig, b.View(), b.Hash()), true
}

func (a *adversary) forgeForkStep() {
	w, ff := a.w, a.ff
	if w.ended || w.viol != nil || ff.phase > 7 {
		return
	}
	defer w.after(500*time.Microsecond, "forgefork", func() { a.forgeForkStep() })
	nd := w.primary(int(ff.z))
	if nd == nil || nd.crashed {
		return
	}
	if ff.phase > 0 && w.now()-ff.at < 2*time.Millisecond {
		return
	}
	g := hotstuff.GetGenesis()
	next := func(chain []*hotstuff.Block, name string, to hotstuff.ID) ([]*hotstuff.Block, bool) {
		parent, qc := g, hotstuff.NewQuorumCert(nil, 0, g.Hash())
		if len(chain) > 0 {
			parent = chain[len(chain)-1]
			var ok bool
			if qc, ok = a.forgedFor(nd, parent, ff.kind); !ok {
				return chain, false
			}
		}
		a.ctr++
		batch := &clientpb.Batch{Commands: []*clientpb.Command{{ClientID: 7500, SequenceNumber: a.ctr, Data: []byte(fmt.Sprintf("%s%d", name, len(chain)+1))}}}
		b := hotstuff.NewBlock(parent.Hash(), qc, batch, hotstuff.View(len(chain)+1), ff.z)
		w.reg.add(b, nd)
		a.sendTo(nd, to, "propose", hotstuff.ProposeMsg{ID: ff.z, Block: b})
		if len(chain) > 0 {
			// the certificate of the previous block once more, on its own: whatever the first look at it left behind
			// (a cache entry, a parked verification) is there for the second
			a.sendTo(nd, to, "newview", hotstuff.NewViewMsg{ID: ff.z, SyncInfo: hotstuff.NewSyncInfoWith(qc), FromNetwork: true})
			a.sendTo(nd, to, "propose", hotstuff.ProposeMsg{ID: ff.z, Block: b})
		}
		return append(chain, b), true
	}
	var okx, oky bool
	ff.x, okx = next(ff.x, "X", ff.a)
	ff.y, oky = next(ff.y, "Y", ff.b)
	if !okx && !oky && ff.phase > 0 {
		w.probe("attack:forgefork-shape-unavailable")
	}
	if ff.phase == 0 {
		a.fired("forgefork")
	}
	ff.at = w.now()
	ff.phase++
	if ff.phase == 8 {
		w.probe("attack:forgefork-completed")
	}
}

func (a *adversary) fhsHideStep() {
	w, fh := a.w, a.fh
	if w.ended || w.viol != nil || fh.phase > 6 {
		return
	}
	defer w.after(500*time.Microsecond, "fhshide", func() { a.fhsHideStep() })
	nd := w.primary(int(fh.z))
	if nd == nil || nd.crashed {
		return
	}
	honest := []hotstuff.ID{fh.a, fh.b, fh.c}
	allIn := func(v hotstuff.View) bool {
		for _, id := range honest {
			if x := w.primary(int(id)); x == nil || x.states.View() < v {
				return false
			}
		}
		return true
	}
	mk := func(name string, parent *hotstuff.Block, qc hotstuff.QuorumCert, view hotstuff.View) *hotstuff.Block {
		a.ctr++
		batch := &clientpb.Batch{Commands: []*clientpb.Command{{ClientID: 7400, SequenceNumber: a.ctr, Data: []byte(name)}}}
		b := hotstuff.NewBlock(parent.Hash(), qc, batch, view, fh.z)
		w.reg.add(b, nd)
		fh.blk[name] = b
		return b
	}
	propose := func(b *hotstuff.Block, to ...hotstuff.ID) {
		for _, id := range to {
			a.sendTo(nd, id, "propose", hotstuff.ProposeMsg{ID: fh.z, Block: b})
		}
	}
	// next: once every honest replica is in view, certify prev from the votes Z was sent and propose on top of it
	next := func(prevName, name string, view hotstuff.View, to ...hotstuff.ID) bool {
		if !allIn(view) {
			return false
		}
		prev := fh.blk[prevName]
		qc, ok := a.certify(nd, prev)
		if !ok {
			return false
		}
		propose(mk(name, prev, qc, view), to...)
		return true
	}
	g := hotstuff.GetGenesis()
	switch fh.phase {
	case 0:
		propose(mk("B1", g, hotstuff.NewQuorumCert(nil, 0, g.Hash()), 1), honest...)
		fh.phase = 1
		a.fired("fhshide")
	case 1:
		if next("B1", "B2", 2, honest...) {
			fh.phase = 2
		}
	case 2:
		if next("B2", "B3", 3, fh.a, fh.b) {
			fh.phase = 3
		}
	case 3:
		// the honest leader's block of view 4
		b4 := a.seen[4]
		if b4 == nil {
			return
		}
		fh.blk["A4"] = b4
		if b4.Parent() != fh.blk["B3"].Hash() && b4.Parent() != fh.blk["B2"].Hash() {
			w.probe("attack:fhshide-honest-leader-forks-below-certified-chain")
		}
		fh.phase = 4
	case 4:
		if next("A4", "B5", 5, honest...) {
			fh.phase = 5
		}
	case 5:
		if next("B5", "B6", 6, honest...) {
			fh.phase = 6
		}
	case 6:
		w.probe("attack:fhshide-completed")
		fh.phase = 7
	}
}

func (a *adversary) fhsStaleStep() {
	w, fs := a.w, a.fs
	if w.ended || w.viol != nil || fs.phase > 8 {
		return
	}
	defer w.after(500*time.Microsecond, "fhsstale", func() { a.fhsStaleStep() })
	nd := w.primary(int(fs.z))
	if nd == nil || nd.crashed {
		return
	}
	viewOf := func(id hotstuff.ID) hotstuff.View {
		if x := w.primary(int(id)); x != nil {
			return x.states.View()
		}
		return 0
	}
	in := func(v hotstuff.View, ids ...hotstuff.ID) bool {
		for _, id := range ids {
			if viewOf(id) < v {
				return false
			}
		}
		return true
	}
	mk := func(name string, parent *hotstuff.Block, qc hotstuff.QuorumCert, view hotstuff.View) *hotstuff.Block {
		a.ctr++
		batch := &clientpb.Batch{Commands: []*clientpb.Command{{ClientID: 7500, SequenceNumber: a.ctr, Data: []byte(name)}}}
		b := hotstuff.NewBlock(parent.Hash(), qc, batch, view, fs.z)
		w.reg.add(b, nd)
		fs.blk[name] = b
		return b
	}
	propose := func(b *hotstuff.Block, agg *hotstuff.AggregateQC, to ...hotstuff.ID) {
		for _, id := range to {
			a.sendTo(nd, id, "propose", hotstuff.ProposeMsg{ID: fs.z, Block: b, AggregateQC: agg})
		}
	}
	g := hotstuff.GetGenesis()
	gqc := hotstuff.NewQuorumCert(nil, 0, g.Hash())
	ownTimeout := func(v hotstuff.View) (hotstuff.TimeoutMsg, bool) {
		m := hotstuff.TimeoutMsg{ID: fs.z, View: v, SyncInfo: hotstuff.NewSyncInfoWith(gqc), ViewSignature: a.ownSig(nd, v.ToBytes())}
		m.MsgSignature = a.ownSig(nd, m.ToBytes())
		return m, m.ViewSignature != nil && m.MsgSignature != nil
	}
	// Z's own (genuine) timeouts for the views in which H1 is not heard: R and H2 need a third one
	for v := hotstuff.View(2); v <= 5; v++ {
		if fs.phase >= 2 && !fs.sentTO[v] && in(v, fs.r, fs.h2) {
			if m, ok := ownTimeout(v); ok {
				for _, id := range []hotstuff.ID{fs.r, fs.h2, fs.h1} {
					a.sendTo(nd, id, "timeout", m)
				}
				fs.sentTO[v] = true
			}
		}
	}
	next := func(prevName, name string, view hotstuff.View, to ...hotstuff.ID) bool {
		if !in(view, to...) {
			return false
		}
		qc, ok := a.certify(nd, fs.blk[prevName])
		if !ok {
			return false
		}
		propose(mk(name, fs.blk[prevName], qc, view), nil, to...)
		return true
	}
	switch fs.phase {
	case 0:
		propose(mk("G", g, gqc, 1), nil, fs.h1, fs.h2)
		fs.phase = 1
		a.fired("fhsstale")
	case 1:
		if next("G", "P", 2, fs.r, fs.h1) {
			// from now on H1 is not heard by R and H2
			until := time.Duration(1 << 60)
			w.net.linkDown[[2]int{int(fs.h1), int(fs.r)}] = until
			w.net.linkDown[[2]int{int(fs.h1), int(fs.h2)}] = until
			w.fault("attack:h1-not-heard")
			fs.phase = 2
		}
	case 2:
		if next("P", "B3", 3, fs.h1) {
			fs.phase = 3
		}
	case 3:
		// the aggregate of the view-2 timeouts of R, H2 and Z
		if !in(3, fs.r, fs.h2) {
			return
		}
		var tos []hotstuff.TimeoutMsg
		got := map[hotstuff.ID]bool{}
		for _, t := range a.touts {
			if t.View == 2 && (t.ID == fs.r || t.ID == fs.h2) && !got[t.ID] && t.MsgSignature != nil {
				got[t.ID] = true
				tos = append(tos, t)
			}
		}
		own, ok := ownTimeout(2)
		if len(tos) != 2 || !ok {
			return
		}
		tos = append(tos, own)
		for _, t := range tos {
			if qc, ok := t.SyncInfo.QC(); ok && qc.View() > 0 {
				w.probe("attack:fhsstale-timeout-reports-the-certificate")
			}
		}
		agg, err := nd.auth.CreateAggregateQC(2, tos)
		if err != nil {
			return
		}
		propose(mk("X3", g, gqc, 3), &agg, fs.r, fs.h2)
		fs.phase = 4
	case 4:
		if next("X3", "X4", 4, fs.r, fs.h2) {
			fs.phase = 5
		}
	case 5:
		if next("X4", "X5", 5, fs.r, fs.h2) {
			fs.phase = 6
		}
	case 6:
		w.probe("attack:fhsstale-completed")
		fs.phase = 9
	}
}

func (a *adversary) learnQC(qc hotstuff.QuorumCert) {
	if qc.Signature() != nil && len(a.qcs) < 4096 {
		a.qcs = append(a.qcs, qc)
	}
}

func (a *adversary) learnSI(si hotstuff.SyncInfo) {
	if qc, ok := si.QC(); ok {
		a.learnQC(qc)
	}
	if tc, ok := si.TC(); ok && tc.Signature() != nil && len(a.tcs) < 4096 {
		a.tcs = append(a.tcs, tc)
	}
	if agg, ok := si.AggQC(); ok && len(a.aggs) < 4096 {
		a.aggs = append(a.aggs, agg)
	}
}

// roll draws the next adversarial choice; all choices come from one counter-keyed stream.
func (a *adversary) roll() uint64 {
	a.ctr++
	return mix(a.w.plan.Inner, 0x616476, a.ctr)
}

func (a *adversary) chance(p float64) bool { return unit(a.roll()) < p }
func (a *adversary) intn(n int) int {
	if n <= 0 {
		return 0
	}
	return int(a.roll() % uint64(n))
}

func (a *adversary) acts(nd *Node) []string {
	if nd.byz == nil || nd.byz.Kind != "script" {
		return nil
	}
	return nd.byz.Acts
}

func has(acts []string, name string) bool {
	for _, x := range acts {
		if x == name {
			return true
		}
	}
	return false
}

func (a *adversary) fired(name string) { a.w.fault("adv:" + name) }

// sendTo sends a crafted (or original) message from Byzantine replica nd to one replica ID.
func (a *adversary) sendTo(nd *Node, to hotstuff.ID, kind string, val any) {
	if to == nd.id || int(to) < 1 || int(to) > a.w.plan.N {
		return
	}
	for _, dst := range a.w.byID[to] {
		m := &Msg{from: nd, fromID: nd.id, to: dst, kind: kind, val: val, forged: true}
		a.w.transmit(m, nd.addr)
	}
}

func (a *adversary) others(nd *Node) []hotstuff.ID {
	var ids []hotstuff.ID
	for id := 1; id <= a.w.plan.N; id++ {
		if hotstuff.ID(id) != nd.id {
			ids = append(ids, hotstuff.ID(id))
		}
	}
	return ids
}

// ownSig signs msg with the Byzantine replica's own key (bypassing the monitored seam: the
// ground-truth log only records honest signers).
func (a *adversary) ownSig(nd *Node, msg []byte) hotstuff.QuorumSignature {
	sig, err := nd.raw.Sign(msg)
	if err != nil {
		return nil
	}
	return sig
}

// repeatSig builds a multi-signature that repeats one replica's signature k times.
func repeatSig(sig hotstuff.QuorumSignature, k int) hotstuff.QuorumSignature {
	switch s := sig.(type) {
	case crypto.Multi[*crypto.EDDSASignature]:
		if len(s) == 0 {
			return nil
		}
		out := make(crypto.Multi[*crypto.EDDSASignature], 0, k)
		for i := 0; i < k; i++ {
			out = append(out, s[0])
		}
		return out
	case crypto.Multi[*crypto.ECDSASignature]:
		if len(s) == 0 {
			return nil
		}
		out := make(crypto.Multi[*crypto.ECDSASignature], 0, k)
		for i := 0; i < k; i++ {
			out = append(out, s[0])
		}
		return out
	}
	return nil
}

// rotateSig builds a multi-signature of n entries that cycles through the first k distinct entries of sig.
func rotateSig(sig hotstuff.QuorumSignature, k, n int) hotstuff.QuorumSignature {
	switch s := sig.(type) {
	case crypto.Multi[*crypto.EDDSASignature]:
		if len(s) < k || k < 1 {
			return nil
		}
		out := make(crypto.Multi[*crypto.EDDSASignature], 0, n)
		for i := 0; i < n; i++ {
			out = append(out, s[i%k])
		}
		return out
	case crypto.Multi[*crypto.ECDSASignature]:
		if len(s) < k || k < 1 {
			return nil
		}
		out := make(crypto.Multi[*crypto.ECDSASignature], 0, n)
		for i := 0; i < n; i++ {
			out = append(out, s[i%k])
		}
		return out
	}
	return nil
}

// relabelSig keeps the signature bytes but claims other signer IDs (shifted by one).
func relabelSig(sig hotstuff.QuorumSignature, n int) hotstuff.QuorumSignature {
	switch s := sig.(type) {
	case crypto.Multi[*crypto.EDDSASignature]:
		out := make(crypto.Multi[*crypto.EDDSASignature], 0, len(s))
		for _, e := range s {
			out = append(out, crypto.RestoreEDDSASignature(e.ToBytes(), hotstuff.ID(int(e.Signer())%n+1)))
		}
		return out
	case crypto.Multi[*crypto.ECDSASignature]:
		out := make(crypto.Multi[*crypto.ECDSASignature], 0, len(s))
		for _, e := range s {
			out = append(out, crypto.RestoreECDSASignature(e.ToBytes(), hotstuff.ID(int(e.Signer())%n+1)))
		}
		return out
	}
	return nil
}

// absorbCount: for signers [c-1, x, y, ...] (c of them) the bytes "S | c | c-1 | x | y ..." also read as
// "S|c  |  c-1 | x | y ...": one signer fewer, the count word appended to the last signature entry.
func absorbCount(sig hotstuff.QuorumSignature) hotstuff.QuorumSignature {
	switch s := sig.(type) {
	case crypto.Multi[*crypto.EDDSASignature]:
		if len(s) < 2 || int(s[0].Signer()) != len(s)-1 {
			return nil
		}
		out := make(crypto.Multi[*crypto.EDDSASignature], 0, len(s)-1)
		// entries keep their bytes except that everything is concatenated in order: drop the first label
		all := s.ToBytes()
		all = binary.LittleEndian.AppendUint32(all, uint32(len(s)))
		for i, e := range s[1:] {
			b := []byte{}
			if i == 0 {
				b = all
			}
			out = append(out, crypto.RestoreEDDSASignature(b, e.Signer()))
		}
		return out
	case crypto.Multi[*crypto.ECDSASignature]:
		if len(s) < 2 || int(s[0].Signer()) != len(s)-1 {
			return nil
		}
		out := make(crypto.Multi[*crypto.ECDSASignature], 0, len(s)-1)
		all := s.ToBytes()
		all = binary.LittleEndian.AppendUint32(all, uint32(len(s)))
		for i, e := range s[1:] {
			b := []byte{}
			if i == 0 {
				b = all
			}
			out = append(out, crypto.RestoreECDSASignature(b, e.Signer()))
		}
		return out
	}
	return nil
}

// relabelBLS keeps the aggregate signature point and names another set of as many signers in the bit field.
func relabelBLS(sig hotstuff.QuorumSignature, n int) hotstuff.QuorumSignature {
	s, ok := sig.(*crypto.BLS12AggregateSignature)
	if !ok {
		return nil
	}
	var in, out []hotstuff.ID
	for id := 1; id <= n; id++ {
		if s.Participants().Contains(hotstuff.ID(id)) {
			in = append(in, hotstuff.ID(id))
		} else {
			out = append(out, hotstuff.ID(id))
		}
	}
	if len(in) == 0 || len(out) == 0 {
		return nil
	}
	var bf crypto.Bitfield
	for _, id := range in[1:] {
		bf.Add(id)
	}
	bf.Add(out[0])
	r, err := crypto.RestoreBLS12AggregateSignature(s.ToBytes(), bf)
	if err != nil {
		return nil
	}
	return r
}

// permuteSig keeps the signer set and the signature bytes in place but rotates the signer labels by one entry.
func permuteSig(sig hotstuff.QuorumSignature) hotstuff.QuorumSignature {
	switch s := sig.(type) {
	case crypto.Multi[*crypto.EDDSASignature]:
		if len(s) < 2 {
			return nil
		}
		out := make(crypto.Multi[*crypto.EDDSASignature], 0, len(s))
		for i, e := range s {
			out = append(out, crypto.RestoreEDDSASignature(e.ToBytes(), s[(i+1)%len(s)].Signer()))
		}
		return out
	case crypto.Multi[*crypto.ECDSASignature]:
		if len(s) < 2 {
			return nil
		}
		out := make(crypto.Multi[*crypto.ECDSASignature], 0, len(s))
		for i, e := range s {
			out = append(out, crypto.RestoreECDSASignature(e.ToBytes(), s[(i+1)%len(s)].Signer()))
		}
		return out
	}
	return nil
}

// resplitSig keeps the signers and the concatenated signature bytes but moves all bytes under the first signer.
func resplitSig(sig hotstuff.QuorumSignature) hotstuff.QuorumSignature {
	switch s := sig.(type) {
	case crypto.Multi[*crypto.EDDSASignature]:
		if len(s) < 2 {
			return nil
		}
		out := make(crypto.Multi[*crypto.EDDSASignature], 0, len(s))
		for i, e := range s {
			var b []byte
			if i == 0 {
				b = s.ToBytes()
			}
			out = append(out, crypto.RestoreEDDSASignature(b, e.Signer()))
		}
		return out
	case crypto.Multi[*crypto.ECDSASignature]:
		if len(s) < 2 {
			return nil
		}
		out := make(crypto.Multi[*crypto.ECDSASignature], 0, len(s))
		for i, e := range s {
			var b []byte
			if i == 0 {
				b = s.ToBytes()
			}
			out = append(out, crypto.RestoreECDSASignature(b, e.Signer()))
		}
		return out
	}
	return nil
}

// padSig appends two bytes to the last entry of a multi-signature.
func padSig(sig hotstuff.QuorumSignature) hotstuff.QuorumSignature {
	switch s := sig.(type) {
	case crypto.Multi[*crypto.EDDSASignature]:
		if len(s) == 0 {
			return nil
		}
		out := append(crypto.Multi[*crypto.EDDSASignature](nil), s...)
		e := out[len(out)-1]
		out[len(out)-1] = crypto.RestoreEDDSASignature(append(append([]byte(nil), e.ToBytes()...), 0, 1), e.Signer())
		return out
	case crypto.Multi[*crypto.ECDSASignature]:
		if len(s) == 0 {
			return nil
		}
		out := append(crypto.Multi[*crypto.ECDSASignature](nil), s...)
		e := out[len(out)-1]
		out[len(out)-1] = crypto.RestoreECDSASignature(append(append([]byte(nil), e.ToBytes()...), 0, 1), e.Signer())
		return out
	}
	return nil
}

// sandwichSig builds [own, other, own] from two single signatures.
func sandwichSig(own, other hotstuff.QuorumSignature) hotstuff.QuorumSignature {
	switch o := own.(type) {
	case crypto.Multi[*crypto.EDDSASignature]:
		x, ok := other.(crypto.Multi[*crypto.EDDSASignature])
		if !ok || len(o) != 1 || len(x) != 1 {
			return nil
		}
		return crypto.Multi[*crypto.EDDSASignature]{o[0], x[0], o[0]}
	case crypto.Multi[*crypto.ECDSASignature]:
		x, ok := other.(crypto.Multi[*crypto.ECDSASignature])
		if !ok || len(o) != 1 || len(x) != 1 {
			return nil
		}
		return crypto.Multi[*crypto.ECDSASignature]{o[0], x[0], o[0]}
	}
	return nil
}

// repeatOtherSig: somebody's genuine single signature k times, then one's own: [x, x, ..., own].
func repeatOtherSig(own, other hotstuff.QuorumSignature, k int) hotstuff.QuorumSignature {
	switch o := own.(type) {
	case crypto.Multi[*crypto.EDDSASignature]:
		x, ok := other.(crypto.Multi[*crypto.EDDSASignature])
		if !ok || len(o) != 1 || len(x) != 1 {
			return nil
		}
		out := crypto.Multi[*crypto.EDDSASignature]{}
		for i := 0; i < k; i++ {
			out = append(out, x[0])
		}
		return append(out, o[0])
	case crypto.Multi[*crypto.ECDSASignature]:
		x, ok := other.(crypto.Multi[*crypto.ECDSASignature])
		if !ok || len(o) != 1 || len(x) != 1 {
			return nil
		}
		out := crypto.Multi[*crypto.ECDSASignature]{}
		for i := 0; i < k; i++ {
			out = append(out, x[0])
		}
		return append(out, o[0])
	}
	return nil
}

// retypeSig keeps signers and bytes entry by entry but presents them as a multi-signature of the other scheme.
func retypeSig(sig hotstuff.QuorumSignature) hotstuff.QuorumSignature {
	switch s := sig.(type) {
	case crypto.Multi[*crypto.EDDSASignature]:
		out := make(crypto.Multi[*crypto.ECDSASignature], 0, len(s))
		for _, e := range s {
			out = append(out, crypto.RestoreECDSASignature(e.ToBytes(), e.Signer()))
		}
		return out
	case crypto.Multi[*crypto.ECDSASignature]:
		out := make(crypto.Multi[*crypto.EDDSASignature], 0, len(s))
		for _, e := range s {
			out = append(out, crypto.RestoreEDDSASignature(e.ToBytes(), e.Signer()))
		}
		return out
	}
	return nil
}

// truncSig drops the last signer of a multi-signature.
func truncSig(sig hotstuff.QuorumSignature, drop int) hotstuff.QuorumSignature {
	if drop <= 0 {
		return nil
	}
	switch s := sig.(type) {
	case crypto.Multi[*crypto.EDDSASignature]:
		if len(s) <= drop {
			return nil
		}
		return s[:len(s)-drop]
	case crypto.Multi[*crypto.ECDSASignature]:
		if len(s) <= drop {
			return nil
		}
		return s[:len(s)-drop]
	}
	return nil
}

// padBLS returns the same BLS signature with k zero bytes appended to its signer bit field: the same signers, the same
// point, a longer encoding (what a peer may put on the wire).
func padBLS(sig hotstuff.QuorumSignature, k int) hotstuff.QuorumSignature {
	s, ok := sig.(*crypto.BLS12AggregateSignature)
	if !ok {
		return nil
	}
	b := append(append([]byte{}, s.Bitfield().Bytes()...), make([]byte, k)...)
	r, err := crypto.RestoreBLS12AggregateSignature(s.ToBytes(), crypto.BitfieldFromBytes(b))
	if err != nil {
		return nil
	}
	return r
}

// ghostBLS returns the same BLS point with bits of replicas n+1, n+2, ... (which nobody has) added to its signer bit
// field until the field counts q signers.
func ghostBLS(sig hotstuff.QuorumSignature, n, q int) hotstuff.QuorumSignature {
	s, ok := sig.(*crypto.BLS12AggregateSignature)
	if !ok {
		return nil
	}
	var bf crypto.Bitfield
	s.Participants().ForEach(func(id hotstuff.ID) { bf.Add(id) })
	for id := n + 1; bf.Len() < q; id++ {
		bf.Add(hotstuff.ID(id))
	}
	r, err := crypto.RestoreBLS12AggregateSignature(s.ToBytes(), bf)
	if err != nil {
		return nil
	}
	return r
}

// oneValidSig: own's signature bytes under every name in others, plus the genuine entry at the end (where 0), the
// beginning (1) or in the middle (2).
func oneValidSig(scheme string, own hotstuff.QuorumSignature, self hotstuff.ID, others []hotstuff.ID, where int) hotstuff.QuorumSignature {
	pos := len(others)
	switch where {
	case 1:
		pos = 0
	case 2:
		pos = len(others) / 2
	}
	switch s := own.(type) {
	case crypto.Multi[*crypto.EDDSASignature]:
		if len(s) != 1 {
			return nil
		}
		out := make(crypto.Multi[*crypto.EDDSASignature], 0, len(others)+1)
		for i, id := range others {
			if i == pos {
				out = append(out, s[0])
			}
			out = append(out, crypto.RestoreEDDSASignature(s[0].ToBytes(), id))
		}
		if pos >= len(others) {
			out = append(out, s[0])
		}
		return out
	case crypto.Multi[*crypto.ECDSASignature]:
		if len(s) != 1 {
			return nil
		}
		out := make(crypto.Multi[*crypto.ECDSASignature], 0, len(others)+1)
		for i, id := range others {
			if i == pos {
				out = append(out, s[0])
			}
			out = append(out, crypto.RestoreECDSASignature(s[0].ToBytes(), id))
		}
		if pos >= len(others) {
			out = append(out, s[0])
		}
		return out
	case *crypto.BLS12AggregateSignature:
		var bf crypto.Bitfield
		bf.Add(self)
		for _, id := range others {
			bf.Add(id)
		}
		r, err := crypto.RestoreBLS12AggregateSignature(s.ToBytes(), bf)
		if err != nil {
			return nil
		}
		return r
	}
	return nil
}

// claimSigner keeps the signature bytes of a single signature but names another replica as its signer.
func claimSigner(scheme string, sig hotstuff.QuorumSignature, id hotstuff.ID) hotstuff.QuorumSignature {
	switch s := sig.(type) {
	case crypto.Multi[*crypto.EDDSASignature]:
		if len(s) == 0 {
			return nil
		}
		return crypto.Multi[*crypto.EDDSASignature]{crypto.RestoreEDDSASignature(s[0].ToBytes(), id)}
	case crypto.Multi[*crypto.ECDSASignature]:
		if len(s) == 0 {
			return nil
		}
		return crypto.Multi[*crypto.ECDSASignature]{crypto.RestoreECDSASignature(s[0].ToBytes(), id)}
	case *crypto.BLS12AggregateSignature:
		var bf crypto.Bitfield
		bf.Add(id)
		r, err := crypto.RestoreBLS12AggregateSignature(s.ToBytes(), bf)
		if err != nil {
			return nil
		}
		return r
	}
	return nil
}

func emptySig(scheme string) hotstuff.QuorumSignature {
	switch scheme {
	case crypto.NameEDDSA:
		return crypto.Multi[*crypto.EDDSASignature]{}
	case crypto.NameECDSA:
		return crypto.Multi[*crypto.ECDSASignature]{}
	case crypto.NameBLS12:
		return &crypto.BLS12AggregateSignature{} // identity point, no participants
	}
	return nil
}

// forgeQC returns a certificate that no quorum backs, built the way the chosen mutation says.
func (a *adversary) forgeQC(nd *Node, kind string, view hotstuff.View) (hotstuff.QuorumCert, bool) {
	w := a.w
	q := w.orc.q
	switch kind {
	case "genesisview":
		return hotstuff.NewQuorumCert(nil, view+hotstuff.View(a.intn(3)), hotstuff.GetGenesis().Hash()), true
	case "dupsigner":
		// certify a block nobody voted for with one's own signature repeated
		b := a.craftBlock(nd, view)
		if b == nil {
			return hotstuff.QuorumCert{}, false
		}
		sig := repeatSig(a.ownSig(nd, b.ToBytes()), q)
		if sig == nil {
			return hotstuff.QuorumCert{}, false
		}
		if len(a.votes) > 0 && a.chance(0.5) {
			// own signature, somebody's genuine vote for a real block, own signature again: repeats that are not neighbours
			v := a.votes[len(a.votes)-1]
			if rb := w.reg.get(v.BlockHash()); rb != nil && v.Signer() != nd.id {
				if mine := a.ownSig(nd, rb.ToBytes()); mine != nil {
					if mix(w.plan.Inner, 0x72707473, a.ctr)%2 == 0 {
						// the genuine vote repeated until the entries make a quorum, then one's own: for the replica that
						// cast (and remembers) that vote every entry is a signature it has seen verified
						if rs := repeatOtherSig(mine, v.Signature(), q-1); rs != nil {
							a.fired("dupsigner-genuine-vote-repeated")
							return hotstuff.NewQuorumCert(rs, rb.View(), rb.Hash()), true
						}
					}
					if rs := sandwichSig(mine, v.Signature()); rs != nil {
						return hotstuff.NewQuorumCert(rs, rb.View(), rb.Hash()), true
					}
				}
			}
		}
		return hotstuff.NewQuorumCert(sig, b.View(), b.Hash()), true
	case "genesissig":
		// the genesis certificate (view 0, genesis hash) needs no signature - here it carries one: no signer at all,
		// the Byzantine replica alone, or the Byzantine replica a quorum of times
		var sig hotstuff.QuorumSignature
		switch a.intn(3) {
		case 0:
			sig = emptySig(w.plan.Crypto)
		case 1:
			sig = a.ownSig(nd, []byte("genesis"))
		default:
			sig = repeatSig(a.ownSig(nd, []byte("genesis")), q)
		}
		if sig == nil {
			return hotstuff.QuorumCert{}, false
		}
		return hotstuff.NewQuorumCert(sig, 0, hotstuff.GetGenesis().Hash()), true
	case "onevalid":
		// a quorum of distinct signers of which exactly one - the Byzantine replica - really signed; the others carry its
		// signature bytes under their names. The genuine entry comes last, first or in the middle
		b := a.craftBlock(nd, view)
		if b == nil {
			return hotstuff.QuorumCert{}, false
		}
		own := a.ownSig(nd, b.ToBytes())
		if own == nil {
			return hotstuff.QuorumCert{}, false
		}
		var ids []hotstuff.ID
		for _, id := range a.others(nd) {
			if len(ids) < q-1 {
				ids = append(ids, id)
			}
		}
		if sig := oneValidSig(w.plan.Crypto, own, nd.id, ids, a.intn(3)); sig != nil {
			return hotstuff.NewQuorumCert(sig, b.View(), b.Hash()), true
		}
		return hotstuff.QuorumCert{}, false
	case "zeroview":
		// an unsigned certificate that claims view 0 (the genesis certificate's shape) for some other block
		b := a.craftBlock(nd, view)
		if b == nil {
			return hotstuff.QuorumCert{}, false
		}
		return hotstuff.NewQuorumCert(nil, 0, b.Hash()), true
	case "nosig":
		b := a.craftBlock(nd, view)
		if b == nil {
			return hotstuff.QuorumCert{}, false
		}
		if a.chance(0.5) {
			return hotstuff.NewQuorumCert(nil, b.View(), b.Hash()), true
		}
		return hotstuff.NewQuorumCert(emptySig(w.plan.Crypto), b.View(), b.Hash()), true
	}
	if len(a.qcs) == 0 {
		return hotstuff.QuorumCert{}, false
	}
	base := a.qcs[len(a.qcs)-1-a.intn(min(len(a.qcs), 4))]
	switch kind {
	case "relabel":
		return hotstuff.NewQuorumCert(base.Signature(), base.View()+hotstuff.View(1+a.intn(12)), base.BlockHash()), true
	case "subquorum":
		if w.plan.Crypto == crypto.NameBLS12 && mix(w.plan.Inner, 0x67686f73, a.ctr)%2 == 0 {
			// a genuine aggregate of two signers (one's own signature and a vote one was sent) for a real block - or one's
			// own signature alone for a block nobody voted for - with bits of replicas that do not exist set in the bit
			// field until the count of signers makes a quorum
			for i := len(a.votes) - 1; i >= 0 && i >= len(a.votes)-8; i-- {
				v := a.votes[i]
				rb := w.reg.get(v.BlockHash())
				if rb == nil || v.Signer() == nd.id || v.Signature() == nil || v.Signature().Participants().Len() != 1 {
					continue
				}
				if vs, ok := v.Signature().(*crypto.BLS12AggregateSignature); ok && mix(w.plan.Inner, 0x72656c62, a.ctr)%2 == 0 {
					// the bytes of that one vote, as they are, under the names of a quorum of real replicas (the voter,
					// who has signed exactly these bytes, among them)
					var bf crypto.Bitfield
					bf.Add(v.Signer())
					for _, id := range a.others(nd) {
						if bf.Len() < q {
							bf.Add(id)
						}
					}
					if bf.Len() < q {
						bf.Add(nd.id)
					}
					if rs, err := crypto.RestoreBLS12AggregateSignature(vs.ToBytes(), bf); err == nil {
						a.fired("subquorum-vote-under-a-quorum-of-names")
						return hotstuff.NewQuorumCert(rs, rb.View(), rb.Hash()), true
					}
				}
				if mine := a.ownSig(nd, rb.ToBytes()); mine != nil {
					if c, err := nd.raw.Combine(mine, v.Signature()); err == nil {
						if gs := ghostBLS(c, w.plan.N, q); gs != nil {
							a.fired("subquorum-ghost-signers")
							return hotstuff.NewQuorumCert(gs, rb.View(), rb.Hash()), true
						}
					}
				}
			}
			if b := a.craftBlock(nd, view); b != nil {
				if gs := ghostBLS(a.ownSig(nd, b.ToBytes()), w.plan.N, q); gs != nil {
					a.fired("subquorum-ghost-signers")
					return hotstuff.NewQuorumCert(gs, b.View(), b.Hash()), true
				}
			}
		}
		if sig := truncSig(base.Signature(), 1+base.Signature().Participants().Len()-q); sig != nil {
			return hotstuff.NewQuorumCert(sig, base.View(), base.BlockHash()), true
		}
	case "swapids":
		if a.chance(0.5) {
			// the same signer set and the same bytes, but the labels rotated among the entries
			if sig := permuteSig(base.Signature()); sig != nil {
				return hotstuff.NewQuorumCert(sig, base.View(), base.BlockHash()), true
			}
		}
		if sig := relabelSig(base.Signature(), w.plan.N); sig != nil {
			return hotstuff.NewQuorumCert(sig, base.View(), base.BlockHash()), true
		}
	case "wrongblock":
		// a real quorum signature attached to another block
		b := a.craftBlock(nd, view)
		if b != nil {
			return hotstuff.NewQuorumCert(base.Signature(), b.View(), b.Hash()), true
		}
	}
	return hotstuff.QuorumCert{}, false
}

// craftBlock makes a block that the honest protocol never produced: it extends some known block.
func (a *adversary) craftBlock(nd *Node, view hotstuff.View) *hotstuff.Block {
	w := a.w
	parent := w.reg.order[len(w.reg.order)-1-a.intn(min(len(w.reg.order), 5))].b
	batch := &clientpb.Batch{Commands: []*clientpb.Command{{ClientID: 7000 + uint32(nd.id), SequenceNumber: a.ctr, Data: []byte(fmt.Sprintf("adv%d", a.ctr))}}}
	if a.noBatch() {
		batch = nil
	} else if w.plan.knob("nobatch", 0) == 1 && mix(w.plan.Inner, 0x756e6b6e, a.ctr)%3 == 0 {
		// a batch from "a newer build": it carries a field this version does not know (field 15, a byte string)
		batch.ProtoReflect().SetUnknown([]byte{0x7a, 0x03, 'n', 'e', 'w'})
		a.fired("batch-with-unknown-field")
	}
	b := hotstuff.NewBlock(parent.Hash(), parent.QuorumCert(), batch, view, nd.id)
	w.reg.add(b, nd)
	a.blocks = append(a.blocks, b)
	if a.crafted == nil {
		a.crafted = map[hotstuff.Hash]*hotstuff.Block{}
	}
	a.crafted[b.Hash()] = b
	return b
}

// noBatch decides, without consuming a draw, that the block being crafted carries no command batch at all: on
// the wire the Commands field is absent, and the receiver decodes a block whose batch is nil.
func (a *adversary) noBatch() bool {
	if a.w.plan.knob("nobatch", 0) != 1 {
		return false
	}
	hit := mix(a.w.plan.Inner, 0x6e6f6261, a.ctr)%3 == 0
	if hit {
		a.fired("block-without-batch")
	}
	return hit
}

// forgeTC returns a timeout certificate that no quorum of timeouts backs.
func (a *adversary) forgeTC(nd *Node) hotstuff.TimeoutCert {
	v := nd.states.View() + hotstuff.View(a.intn(30))
	if mix(a.w.plan.Inner, 0x7a657274, a.ctr)%8 == 0 {
		// the certificate of view 0 (which needs no signature) carrying one: its own, over anything
		if junk := a.ownSig(nd, []byte("view zero")); junk != nil {
			a.fired("forgetc-view-zero-signed")
			return hotstuff.NewTimeoutCert(junk, 0)
		}
	}
	if cur := nd.states.View(); cur > 2 && mix(a.w.plan.Inner, 0x6f6c6474, a.ctr)%5 == 0 {
		// a view long left (at or below what has been committed): its own signature alone, or no signature
		old := hotstuff.View(1 + mix(a.w.plan.Inner, 0x6f6c6475, a.ctr)%uint64(cur-1))
		a.fired("forgetc-old-view")
		if mix(a.w.plan.Inner, 0x6f6c6476, a.ctr)%2 == 0 {
			return hotstuff.NewTimeoutCert(nil, old)
		}
		return hotstuff.NewTimeoutCert(a.ownSig(nd, old.ToBytes()), old)
	}
	switch a.intn(4) {
	case 0: // its own signature alone, for some later view
		return hotstuff.NewTimeoutCert(a.ownSig(nd, v.ToBytes()), v)
	case 1: // its own signature repeated
		if sig := repeatSig(a.ownSig(nd, v.ToBytes()), a.w.orc.q); sig != nil {
			return hotstuff.NewTimeoutCert(sig, v)
		}
	case 2: // a real certificate relabelled to a later view
		if len(a.tcs) > 0 {
			tc := a.tcs[a.intn(len(a.tcs))]
			return hotstuff.NewTimeoutCert(tc.Signature(), tc.View()+hotstuff.View(1+a.intn(20)))
		}
	case 3: // a real certificate cut below the quorum
		if len(a.tcs) > 0 {
			tc := a.tcs[a.intn(len(a.tcs))]
			if sig := truncSig(tc.Signature(), 1+tc.Signature().Participants().Len()-a.w.orc.q); sig != nil {
				return hotstuff.NewTimeoutCert(sig, tc.View())
			}
		}
	}
	return hotstuff.NewTimeoutCert(a.ownSig(nd, v.ToBytes()), v)
}

var qcForgeries = []string{"dupsigner", "relabel", "subquorum", "wrongblock", "genesisview", "swapids", "nosig", "zeroview", "genesissig", "onevalid"}

func (a *adversary) pickForgery(acts []string) string {
	var have []string
	for _, f := range qcForgeries {
		if has(acts, f) {
			have = append(have, f)
		}
	}
	if len(have) == 0 {
		return ""
	}
	return have[a.intn(len(have))]
}

// ---- hooks on the Byzantine replica's outgoing traffic ---------------------------------------------

func (a *adversary) onPropose(nd *Node, p *hotstuff.ProposeMsg) bool {
	acts := a.acts(nd)
	if acts == nil || !a.chance(nd.byz.Rate) {
		return false
	}
	w := a.w
	b := p.Block
	if has(acts, "aggforge") && p.AggregateQC != nil && len(a.qcs) > 0 && a.chance(0.8) {
		// A valid aggregate whose high QC is genuine (the leader attests the newest QC it knows), and a block that
		// extends the certified block but embeds a spoiled copy of that QC: same view and hash, bad signature.
		x := a.qcs[0]
		for _, c := range a.qcs {
			if c.View() > x.View() {
				x = c
			}
		}
		if agg, ok := a.attestInAggregate(nd, *p.AggregateQC, x); ok && x.View() < b.View() {
			var bad hotstuff.QuorumSignature
			switch a.intn(3) {
			case 0:
				bad = truncSig(x.Signature(), 1+a.intn(2))
			case 1:
				bad = relabelSig(x.Signature(), w.plan.N)
			default:
				bad = repeatSig(a.ownSig(nd, w.reg.get(x.BlockHash()).ToBytes()), quorumOf(w.plan.N))
			}
			if bad != nil && w.reg.get(x.BlockHash()) != nil {
				b2 := hotstuff.NewBlock(x.BlockHash(), hotstuff.NewQuorumCert(bad, x.View(), x.BlockHash()), b.Commands(), b.View(), nd.id)
				w.reg.add(b2, nd)
				for _, id := range a.others(nd) {
					a.sendTo(nd, id, "propose", hotstuff.ProposeMsg{ID: nd.id, Block: b2, AggregateQC: &agg})
				}
				a.fired("aggforge")
				return true
			}
		}
	}
	if has(acts, "aggstale") && len(a.aggs) > 0 && a.chance(0.8) {
		// an unhappy-path proposal justified by an aggregate of some earlier view: the block extends the high QC that
		// old aggregate contains
		old := a.aggs[a.intn(len(a.aggs))]
		if uint64(old.View())+1 < uint64(b.View()) {
			var high hotstuff.QuorumCert
			found := false
			for id := 1; id <= w.plan.N; id++ {
				if qc, ok := old.QCs()[hotstuff.ID(id)]; ok && (!found || qc.View() > high.View()) {
					if okb, _ := w.orc.qcBacked(qc); okb {
						high, found = qc, true
					}
				}
			}
			if found && w.reg.get(high.BlockHash()) != nil {
				b2 := hotstuff.NewBlock(high.BlockHash(), high, b.Commands(), b.View(), nd.id)
				w.reg.add(b2, nd)
				for _, id := range a.others(nd) {
					a.sendTo(nd, id, "propose", hotstuff.ProposeMsg{ID: nd.id, Block: b2, AggregateQC: &old})
				}
				a.fired("aggstale")
				return true
			}
		}
	}
	if has(acts, "aggswap") && p.AggregateQC != nil && a.chance(0.8) {
		if agg, ok := a.swapInAggregate(nd, *p.AggregateQC); ok {
			for _, id := range a.others(nd) {
				a.sendTo(nd, id, "propose", hotstuff.ProposeMsg{ID: nd.id, Block: b, AggregateQC: &agg})
			}
			a.fired("aggswap")
			return true
		}
	}
	if has(acts, "aggtwin") && p.AggregateQC != nil && a.chance(0.8) {
		// the leader's own entry of the aggregate attests a relabelled copy of the genuine high QC (same bytes,
		// same view, signer labels rotated): honestly signed by the leader, invalid as a certificate
		if agg, ok := a.twinInAggregate(nd, *p.AggregateQC); ok {
			for _, id := range a.others(nd) {
				a.sendTo(nd, id, "propose", hotstuff.ProposeMsg{ID: nd.id, Block: b, AggregateQC: &agg})
			}
			a.fired("aggtwin")
			return true
		}
	}
	if has(acts, "dupbatch") && len(b.Commands().GetCommands()) > 0 && a.chance(0.6) {
		// a batch that lists one of its commands twice (and, with several commands of one client, in descending order)
		cmds := append([]*clientpb.Command(nil), b.Commands().GetCommands()...)
		if a.chance(0.5) {
			for i, j := 0, len(cmds)-1; i < j; i, j = i+1, j-1 {
				cmds[i], cmds[j] = cmds[j], cmds[i]
			}
		}
		cmds = append(cmds, cmds[0])
		b2 := hotstuff.NewBlock(b.Parent(), b.QuorumCert(), &clientpb.Batch{Commands: cmds}, b.View(), nd.id)
		w.reg.add(b2, nd)
		for _, id := range a.others(nd) {
			a.sendTo(nd, id, "propose", hotstuff.ProposeMsg{ID: nd.id, Block: b2, AggregateQC: p.AggregateQC})
		}
		a.fired("dupbatch")
		return true
	}
	if has(acts, "payloadeq") && len(b.Commands().GetCommands()) > 0 && a.chance(0.7) {
		// the same block in every respect (created at the same instant) except for the payload of its commands:
		// command identities, parent, certificate, view and proposer are equal
		var cmds []*clientpb.Command
		for _, c := range b.Commands().GetCommands() {
			cmds = append(cmds, &clientpb.Command{ClientID: c.ClientID, SequenceNumber: c.SequenceNumber, Data: append(append([]byte(nil), c.Data...), '~')})
		}
		b2 := hotstuff.NewBlock(b.Parent(), b.QuorumCert(), &clientpb.Batch{Commands: cmds}, b.View(), nd.id)
		w.reg.add(b2, nd)
		p2 := hotstuff.ProposeMsg{ID: nd.id, Block: b2, AggregateQC: p.AggregateQC}
		for i, id := range a.others(nd) {
			if i%2 == 0 {
				a.sendTo(nd, id, "propose", *p)
			} else {
				a.sendTo(nd, id, "propose", p2)
			}
		}
		a.fired("payloadeq")
		return true
	}
	if has(acts, "qceq") && a.chance(0.7) {
		// the same block (created at the same instant) with another valid certificate for the same parent: a
		// different quorum taken from the votes the leader holds
		if alt, ok := a.otherQuorum(nd, b.QuorumCert()); ok {
			b2 := hotstuff.NewBlock(b.Parent(), alt, b.Commands(), b.View(), nd.id)
			w.reg.add(b2, nd)
			p2 := hotstuff.ProposeMsg{ID: nd.id, Block: b2, AggregateQC: p.AggregateQC}
			for i, id := range a.others(nd) {
				if i%2 == 0 {
					a.sendTo(nd, id, "propose", *p)
				} else {
					a.sendTo(nd, id, "propose", p2)
				}
			}
			a.fired("qceq")
			return true
		}
	}
	switch {
	case has(acts, "equivocate") && a.chance(0.6):
		// two blocks for one view, each to a part of the cluster
		batch := &clientpb.Batch{Commands: []*clientpb.Command{{ClientID: 7000 + uint32(nd.id), SequenceNumber: a.ctr, Data: []byte("eq")}}}
		if a.noBatch() {
			batch = nil
		} else if w.plan.knob("nobatch", 0) == 1 && mix(w.plan.Inner, 0x756e6b6f, a.ctr)%2 == 0 {
			batch.ProtoReflect().SetUnknown([]byte{0x7a, 0x03, 'n', 'e', 'w'}) // a field this version does not know
			a.fired("batch-with-unknown-field")
		}
		b2 := hotstuff.NewBlock(b.Parent(), b.QuorumCert(), batch, b.View(), nd.id)
		if len(a.qcs) > 1 && a.chance(0.5) {
			// the second block forks off further back: it extends an older certified block
			old := a.qcs[a.intn(len(a.qcs))]
			if old.BlockHash() != b.QuorumCert().BlockHash() && old.View() < b.View() {
				b2 = hotstuff.NewBlock(old.BlockHash(), old, batch, b.View(), nd.id)
				a.fired("equivocate-different-parents")
			}
		}
		w.reg.add(b2, nd)
		p2 := hotstuff.ProposeMsg{ID: nd.id, Block: b2, AggregateQC: p.AggregateQC}
		for _, id := range a.others(nd) {
			if a.chance(0.5) {
				a.sendTo(nd, id, "propose", *p)
			} else {
				a.sendTo(nd, id, "propose", p2)
			}
			if a.chance(0.15) {
				a.sendTo(nd, id, "propose", p2)
			}
		}
		a.fired("equivocate")
		return true
	case has(acts, "badparent") && a.chance(0.6):
		// the parent pointer disagrees with the certified block
		other := w.reg.order[a.intn(len(w.reg.order))].b
		if other.Hash() == b.QuorumCert().BlockHash() {
			return false
		}
		b2 := hotstuff.NewBlock(other.Hash(), b.QuorumCert(), b.Commands(), b.View(), nd.id)
		w.reg.add(b2, nd)
		for _, id := range a.others(nd) {
			a.sendTo(nd, id, "propose", hotstuff.ProposeMsg{ID: nd.id, Block: b2, AggregateQC: p.AggregateQC})
		}
		a.fired("badparent")
		return true
	case has(acts, "sameview") && a.chance(0.6):
		// a block that does not move past the view of the block it certifies
		qcb := w.reg.get(b.QuorumCert().BlockHash())
		if qcb == nil || qcb.View() == 0 {
			return false
		}
		b2 := hotstuff.NewBlock(b.Parent(), b.QuorumCert(), b.Commands(), qcb.View(), nd.id)
		w.reg.add(b2, nd)
		for _, id := range a.others(nd) {
			a.sendTo(nd, id, "propose", hotstuff.ProposeMsg{ID: nd.id, Block: b2})
		}
		a.fired("sameview")
		return true
	}
	if f := a.pickForgery(acts); f != "" && a.chance(0.7) {
		// a proposal justified by a forged certificate
		qc, ok := a.forgeQC(nd, f, b.View()-1)
		if !ok {
			return false
		}
		b2 := hotstuff.NewBlock(qc.BlockHash(), qc, b.Commands(), b.View(), nd.id)
		w.reg.add(b2, nd)
		for _, id := range a.others(nd) {
			a.sendTo(nd, id, "propose", hotstuff.ProposeMsg{ID: nd.id, Block: b2, AggregateQC: p.AggregateQC})
		}
		a.fired("forged-qc-proposal:" + f)
		return true
	}
	return false
}

// twinInAggregate rebuilds an aggregate certificate so that the Byzantine replica's own attested QC is a
// relabelled twin of the highest attested one; its own timeout-message signature is made afresh.
func (a *adversary) twinInAggregate(nd *Node, agg hotstuff.AggregateQC) (hotstuff.AggregateQC, bool) {
	var high hotstuff.QuorumCert
	found := false
	for id := 1; id <= a.w.plan.N; id++ {
		if qc, ok := agg.QCs()[hotstuff.ID(id)]; ok && qc.Signature() != nil && (!found || qc.View() > high.View()) {
			high, found = qc, true
		}
	}
	if !found {
		return agg, false
	}
	ps := permuteSig(high.Signature())
	if ps == nil {
		return agg, false
	}
	twin := hotstuff.NewQuorumCert(ps, high.View(), high.BlockHash())
	own := a.ownSig(nd, hotstuff.TimeoutMsg{ID: nd.id, View: agg.View(), SyncInfo: hotstuff.NewSyncInfoWith(twin)}.ToBytes())
	if own == nil {
		return agg, false
	}
	sig := replaceSigner(agg.Sig(), nd.id, own)
	if sig == nil {
		return agg, false
	}
	qcs := map[hotstuff.ID]hotstuff.QuorumCert{}
	for id := 1; id <= a.w.plan.N; id++ {
		if qc, ok := agg.QCs()[hotstuff.ID(id)]; ok {
			qcs[hotstuff.ID(id)] = qc
		}
	}
	qcs[nd.id] = twin
	return hotstuff.NewAggregateQC(qcs, sig, agg.View()), true
}

// rogueKeyQC forges a certificate with the rogue key: genuine votes of q-2 honest replicas for one block, plus
// H(block)^x, named as an aggregate of those replicas, the victim and the rogue replica. Arithmetically the victim's
// key cancels out; only the proof-of-possession check stands between this and an accepted certificate.
func (a *adversary) rogueKeyQC(nd *Node) (hotstuff.QuorumCert, bool) {
	w := a.w
	k := w.keys
	if k.rogue != nd.id || k.rogueX == nil {
		return hotstuff.QuorumCert{}, false
	}
	need := quorumOf(w.plan.N) - 2
	// the newest block with enough genuine single votes of replicas other than victim and rogue
	for i := len(a.votes) - 1; i >= 0 && i >= len(a.votes)-64; i-- {
		h := a.votes[i].BlockHash()
		b := w.reg.get(h)
		if b == nil {
			continue
		}
		g2 := bls12.NewG2()
		sum := g2.Zero()
		bf := crypto.Bitfield{}
		got := map[hotstuff.ID]bool{}
		for j := len(a.votes) - 1; j >= 0 && len(got) < need; j-- {
			v := a.votes[j]
			sg, ok := v.Signature().(*crypto.BLS12AggregateSignature)
			if !ok || sg == nil || v.BlockHash() != h || sg.Participants().Len() != 1 {
				continue
			}
			id := v.Signer()
			if id == k.victim || id == k.rogue || got[id] || !w.orc.honestSigned(id, b.ToBytes()) {
				continue
			}
			pt, err := bls12.NewG2().FromCompressed(sg.ToBytes())
			if err != nil {
				continue
			}
			g2.Add(sum, sum, pt)
			bf.Add(id)
			got[id] = true
		}
		if len(got) < need {
			continue
		}
		hp, err := g2.HashToCurve(b.ToBytes(), blsDomain)
		if err != nil {
			return hotstuff.QuorumCert{}, false
		}
		g2.MulScalarBig(hp, hp, k.rogueX)
		g2.Add(sum, sum, hp)
		bf.Add(k.victim)
		bf.Add(k.rogue)
		agg, err := crypto.RestoreBLS12AggregateSignature(g2.ToCompressed(sum), bf)
		if err != nil {
			return hotstuff.QuorumCert{}, false
		}
		return hotstuff.NewQuorumCert(agg, b.View(), b.Hash()), true
	}
	return hotstuff.QuorumCert{}, false
}

// otherQuorum builds a second valid certificate for the block qc certifies, from another quorum of the votes seen.
func (a *adversary) otherQuorum(nd *Node, qc hotstuff.QuorumCert) (hotstuff.QuorumCert, bool) {
	w := a.w
	b := w.reg.get(qc.BlockHash())
	if b == nil || qc.Signature() == nil {
		return qc, false
	}
	have := map[hotstuff.ID]hotstuff.PartialCert{}
	var ids []hotstuff.ID
	for _, v := range a.votes {
		if v.BlockHash() != qc.BlockHash() || v.Signature() == nil || v.Signature().Participants().Len() != 1 {
			continue
		}
		id := v.Signer()
		if _, ok := have[id]; ok || !w.orc.honestSigned(id, b.ToBytes()) {
			continue
		}
		have[id] = v
		ids = append(ids, id)
	}
	q := quorumOf(w.plan.N)
	if len(ids) < q {
		return qc, false
	}
	// a quorum that differs from the one in qc: leave out one of qc's signers if possible
	var drop hotstuff.ID
	for _, id := range ids {
		if qc.Signature().Participants().Contains(id) {
			drop = id
			break
		}
	}
	var parts []hotstuff.PartialCert
	for _, id := range ids {
		if id != drop && len(parts) < q {
			parts = append(parts, have[id])
		}
	}
	if len(parts) < q {
		return qc, false
	}
	alt, err := nd.auth.CreateQuorumCert(b, parts)
	if err != nil || alt.Signature() == nil || bytes.Equal(alt.Signature().ToBytes(), qc.Signature().ToBytes()) {
		return qc, false
	}
	return alt, true
}

// swapInAggregate replaces the QC listed for one honest signer by a QC for the same block and view whose signature
// is spoiled (the aggregate signature stays as it is).
func (a *adversary) swapInAggregate(nd *Node, agg hotstuff.AggregateQC) (hotstuff.AggregateQC, bool) {
	w := a.w
	qcs := map[hotstuff.ID]hotstuff.QuorumCert{}
	var victim hotstuff.ID
	for id := 1; id <= w.plan.N; id++ {
		qc, ok := agg.QCs()[hotstuff.ID(id)]
		if !ok {
			continue
		}
		qcs[hotstuff.ID(id)] = qc
		honest := true
		for _, b := range w.plan.Byz {
			honest = honest && b.ID != id
		}
		if honest && (victim == 0 || (qc.Signature() != nil && qcs[victim].Signature() == nil)) {
			victim = hotstuff.ID(id)
		}
	}
	if victim == 0 {
		return agg, false
	}
	old := qcs[victim]
	var bad hotstuff.QuorumSignature
	if old.Signature() != nil && a.chance(0.5) {
		// labels only: the same signature bytes under other signers' names. Whatever the victim signed over the bytes of
		// its entry, it did not attest a certificate signed by these replicas
		switch mix(w.plan.Inner, 0x7477696e, a.ctr) % 4 {
		case 1:
			bad = resplitSig(old.Signature()) // the same bytes and signers, divided differently among the entries
		case 2:
			bad = retypeSig(old.Signature()) // the same entries presented as the other multi-signature scheme's
		case 3:
			bad = absorbCount(old.Signature()) // one signer fewer: its label read as the count (needs first signer = count-1)
		}
		if bad == nil {
			bad = permuteSig(old.Signature())
		}
		if bad == nil {
			bad = relabelBLS(old.Signature(), w.plan.N)
		}
		if bad != nil {
			a.fired("aggswap-labels-only")
		}
	}
	if bad != nil {
	} else if old.Signature() != nil {
		if bad = truncSig(old.Signature(), 1); bad == nil {
			bad = relabelSig(old.Signature(), w.plan.N)
		}
	} else {
		bad = a.ownSig(nd, []byte("nothing"))
	}
	if bad == nil {
		return agg, false
	}
	qcs[victim] = hotstuff.NewQuorumCert(bad, old.View(), old.BlockHash())
	return hotstuff.NewAggregateQC(qcs, agg.Sig(), agg.View()), true
}

// loneAggregate: an aggregate certificate for the Byzantine replica's current view that only it signed. The bit field
// (or the entry list) names it and quorum-1 others - replicas outside the configuration, or configured ones - and the
// certificate lists a QC of its choosing (the oldest genuine one it knows, or genesis) for each of them.
func (a *adversary) loneAggregate(nd *Node) (hotstuff.AggregateQC, bool) {
	w := a.w
	qc := hotstuff.NewQuorumCert(nil, 0, hotstuff.GetGenesis().Hash())
	if len(a.qcs) > 0 && a.chance(0.5) {
		qc = a.qcs[0]
	}
	view := nd.states.View()
	if a.chance(0.3) && view > 1 {
		view--
	}
	own := a.ownSig(nd, hotstuff.TimeoutMsg{ID: nd.id, View: view, SyncInfo: hotstuff.NewSyncInfoWith(qc)}.ToBytes())
	if own == nil {
		return hotstuff.AggregateQC{}, false
	}
	var ids []hotstuff.ID
	outside := a.chance(0.6)
	for k := 1; len(ids) < w.orc.q-1 && k <= w.plan.N+w.orc.q; k++ {
		id := hotstuff.ID(k)
		if outside {
			id = hotstuff.ID(w.plan.N + k)
		}
		if id != nd.id {
			ids = append(ids, id)
		}
	}
	sig := oneValidSig(w.plan.Crypto, own, nd.id, ids, 1+a.intn(2))
	if sig == nil {
		return hotstuff.AggregateQC{}, false
	}
	qcs := map[hotstuff.ID]hotstuff.QuorumCert{nd.id: qc}
	for _, id := range ids {
		qcs[id] = qc
	}
	return hotstuff.NewAggregateQC(qcs, sig, view), true
}

// attestInAggregate rebuilds an aggregate certificate so that the Byzantine replica's own entry attests qc.
func (a *adversary) attestInAggregate(nd *Node, agg hotstuff.AggregateQC, qc hotstuff.QuorumCert) (hotstuff.AggregateQC, bool) {
	own := a.ownSig(nd, hotstuff.TimeoutMsg{ID: nd.id, View: agg.View(), SyncInfo: hotstuff.NewSyncInfoWith(qc)}.ToBytes())
	if own == nil {
		return agg, false
	}
	sig := replaceSigner(agg.Sig(), nd.id, own)
	if sig == nil {
		return agg, false
	}
	qcs := map[hotstuff.ID]hotstuff.QuorumCert{}
	for id := 1; id <= a.w.plan.N; id++ {
		if c, ok := agg.QCs()[hotstuff.ID(id)]; ok {
			qcs[hotstuff.ID(id)] = c
		}
	}
	qcs[nd.id] = qc
	return hotstuff.NewAggregateQC(qcs, sig, agg.View()), true
}

// replaceSigner returns the multi-signature with id's entry replaced by (or, if absent, extended with) the
// single signature own, entries sorted by signer.
func replaceSigner(sig hotstuff.QuorumSignature, id hotstuff.ID, own hotstuff.QuorumSignature) hotstuff.QuorumSignature {
	switch s := sig.(type) {
	case crypto.Multi[*crypto.EDDSASignature]:
		o, ok := own.(crypto.Multi[*crypto.EDDSASignature])
		if !ok || len(o) != 1 {
			return nil
		}
		out := make(crypto.Multi[*crypto.EDDSASignature], 0, len(s)+1)
		done := false
		for _, e := range s {
			if e.Signer() == id {
				continue
			}
			if !done && e.Signer() > id {
				out = append(out, o[0])
				done = true
			}
			out = append(out, e)
		}
		if !done {
			out = append(out, o[0])
		}
		return out
	case crypto.Multi[*crypto.ECDSASignature]:
		o, ok := own.(crypto.Multi[*crypto.ECDSASignature])
		if !ok || len(o) != 1 {
			return nil
		}
		out := make(crypto.Multi[*crypto.ECDSASignature], 0, len(s)+1)
		done := false
		for _, e := range s {
			if e.Signer() == id {
				continue
			}
			if !done && e.Signer() > id {
				out = append(out, o[0])
				done = true
			}
			out = append(out, e)
		}
		if !done {
			out = append(out, o[0])
		}
		return out
	}
	return nil
}

func (a *adversary) onTimeout(nd *Node, m *hotstuff.TimeoutMsg) bool {
	acts := a.acts(nd)
	if acts == nil || !a.chance(nd.byz.Rate) {
		return false
	}
	if has(acts, "noqctimeout") && m.MsgSignature != nil && a.chance(0.7) {
		// aggregate mode: a correctly signed timeout whose sync info carries no QC at all (only the TC, or nothing)
		fm := *m
		var si hotstuff.SyncInfo
		if tc, ok := m.SyncInfo.TC(); ok && a.chance(0.5) {
			si = hotstuff.NewSyncInfoWith(tc)
		}
		fm.SyncInfo = si
		fm.MsgSignature = a.ownSig(nd, fm.ToBytes())
		for _, id := range a.others(nd) {
			a.sendTo(nd, id, "timeout", fm)
		}
		a.fired("noqctimeout")
		return true
	}
	if has(acts, "padbits") && a.chance(0.8) {
		if ps := padBLS(m.ViewSignature, 1+a.intn(3)); ps != nil {
			fm := *m
			fm.ViewSignature = ps
			if m.MsgSignature != nil {
				if pm := padBLS(m.MsgSignature, 1+a.intn(3)); pm != nil {
					fm.MsgSignature = pm
				}
			}
			for _, id := range a.others(nd) {
				a.sendTo(nd, id, "timeout", fm)
			}
			a.fired("padbits-timeout")
			return true
		}
	}
	if has(acts, "timeoutqc") && m.MsgSignature == nil && len(a.qcs) > 0 && a.chance(0.7) {
		// simple timeout rule: its own, correctly signed timeout carries the newest genuine QC it holds - possibly one
		// for the very view that is timing out, which the honest replicas have not seen
		qc := a.qcs[0]
		for _, c := range a.qcs {
			if c.View() > qc.View() {
				qc = c
			}
		}
		fm := *m
		si := fm.SyncInfo
		si.SetQC(qc)
		fm.SyncInfo = si
		if qc.View() < fm.View && qc.View() > 0 {
			// ... as a timeout for the view that QC certifies (the view the others are about to time out of, if this
			// replica collected the votes and kept the certificate to itself), signed accordingly
			if vs := a.ownSig(nd, qc.View().ToBytes()); vs != nil {
				fm.View, fm.ViewSignature = qc.View(), vs
				a.fired("timeoutqc-for-the-certified-view")
			}
		}
		for _, id := range a.others(nd) {
			a.sendTo(nd, id, "timeout", fm)
		}
		a.fired("timeoutqc")
		return true
	}
	if has(acts, "aggattest") && m.MsgSignature != nil && len(a.qcs) > 0 && a.chance(0.5) {
		// every second timeout of the Byzantine replica attests the newest genuine QC it has seen (the others attest
		// whatever its stack holds): aggregates with and without that QC alternate at the honest replicas
		qc := a.qcs[0]
		for _, c := range a.qcs {
			if c.View() > qc.View() {
				qc = c
			}
		}
		if mix(a.w.plan.Inner, 0x68756765, a.ctr)%3 == 0 {
			// ... or a made-up certificate for the same block whose view is 2^63 plus the view of the newest genuine one:
			// it cannot verify, but it takes part when the attested certificates are ordered by view
			if junk := a.ownSig(nd, []byte("huge")); junk != nil {
				qc = hotstuff.NewQuorumCert(junk, hotstuff.View(1<<63)+qc.View(), qc.BlockHash())
				a.fired("aggattest-huge-view")
			}
		}
		fm := *m
		si := fm.SyncInfo
		si.SetQC(qc)
		fm.SyncInfo = si
		fm.MsgSignature = a.ownSig(nd, fm.ToBytes())
		for _, id := range a.others(nd) {
			a.sendTo(nd, id, "timeout", fm)
		}
		a.fired("aggattest")
		return true
	}
	if has(acts, "aggtwin") && m.MsgSignature != nil && a.chance(0.8) {
		// its own timeout attests a relabelled twin of its high QC (the signed bytes are the same): honest
		// collectors put it into the aggregates they assemble
		// The QC is the newest one any Byzantine replica has seen (vote collectors form real QCs even where the
		// honest replicas never adopt them); colluding replicas attest it genuinely or as the twin, by their slot.
		qc, ok := m.SyncInfo.QC()
		if len(a.qcs) > 0 {
			qc, ok = a.qcs[len(a.qcs)-1], true
			for _, c := range a.qcs {
				if c.View() > qc.View() {
					qc = c
				}
			}
		}
		if ok && qc.Signature() != nil {
			att := qc
			rank := 0
			for i, b := range a.w.plan.Byz {
				if b.ID == int(nd.id) {
					rank = i
				}
			}
			if rank%2 == 0 {
				if ps := permuteSig(qc.Signature()); ps != nil {
					att = hotstuff.NewQuorumCert(ps, qc.View(), qc.BlockHash())
				}
			}
			fm := *m
			si := fm.SyncInfo
			si.SetQC(att)
			fm.SyncInfo = si
			fm.MsgSignature = a.ownSig(nd, fm.ToBytes())
			for _, id := range a.others(nd) {
				a.sendTo(nd, id, "timeout", fm)
			}
			a.fired("aggtwin-timeout")
			return true
		}
	}
	if has(acts, "futuretimeout") && a.chance(0.7) {
		// correctly signed timeouts for views the replica is not in
		for k := 0; k < 1+a.intn(3); k++ {
			v := m.View + hotstuff.View(1+a.intn(20))
			fm := hotstuff.TimeoutMsg{ID: nd.id, View: v, SyncInfo: m.SyncInfo, ViewSignature: a.ownSig(nd, v.ToBytes())}
			if m.MsgSignature != nil {
				fm.MsgSignature = a.ownSig(nd, fm.ToBytes())
			}
			for _, id := range a.others(nd) {
				a.sendTo(nd, id, "timeout", fm)
			}
		}
		a.fired("futuretimeout")
	}
	if has(acts, "badtimeoutsig") && a.chance(0.7) {
		fm := *m
		switch a.intn(4) {
		case 0: // signature over another view
			fm.ViewSignature = a.ownSig(nd, (m.View + 1).ToBytes())
		case 1: // somebody else's signature under one's own name
			if len(a.touts) > 0 {
				fm.ViewSignature = a.touts[a.intn(len(a.touts))].ViewSignature
			}
		case 2: // no signers at all
			fm.ViewSignature = emptySig(a.w.plan.Crypto)
		case 3: // message signature over something else
			if m.MsgSignature != nil {
				fm.MsgSignature = a.ownSig(nd, []byte("not the timeout message"))
			} else {
				fm.ViewSignature = a.ownSig(nd, []byte("garbage!"))
			}
		}
		for _, id := range a.others(nd) {
			a.sendTo(nd, id, "timeout", fm)
		}
		a.fired("badtimeoutsig")
		return true
	}
	if f := a.pickForgery(acts); f != "" && a.chance(0.5) {
		// a timeout whose sync info carries a forged certificate
		if qc, ok := a.forgeQC(nd, f, m.View); ok {
			fm := *m
			si := hotstuff.NewSyncInfoWith(qc)
			fm.SyncInfo = si
			if m.MsgSignature != nil {
				fm.MsgSignature = a.ownSig(nd, fm.ToBytes())
			}
			for _, id := range a.others(nd) {
				a.sendTo(nd, id, "timeout", fm)
			}
			a.fired("forged-qc-timeout:" + f)
			return true
		}
	}
	if has(acts, "forgetc") && a.chance(0.6) {
		fm := *m
		fm.SyncInfo.SetTC(a.forgeTC(nd))
		if m.MsgSignature != nil {
			fm.MsgSignature = a.ownSig(nd, fm.ToBytes())
		}
		for _, id := range a.others(nd) {
			a.sendTo(nd, id, "timeout", fm)
		}
		a.fired("forgetc-timeout")
		return true
	}
	if has(acts, "staleTC") && len(a.tcs) > 0 && a.chance(0.5) {
		// replay an old timeout certificate, or one relabelled to a later view
		tc := a.tcs[a.intn(len(a.tcs))]
		if a.chance(0.5) {
			tc = hotstuff.NewTimeoutCert(tc.Signature(), tc.View()+hotstuff.View(1+a.intn(10)))
		}
		for _, id := range a.others(nd) {
			a.sendTo(nd, id, "newview", hotstuff.NewViewMsg{ID: nd.id, SyncInfo: hotstuff.NewSyncInfoWith(tc), FromNetwork: true})
		}
		a.fired("staleTC")
	}
	return false
}

func (a *adversary) onVote(nd *Node, to hotstuff.ID, c *hotstuff.PartialCert) bool {
	acts := a.acts(nd)
	if acts == nil || !a.chance(nd.byz.Rate) {
		return false
	}
	w := a.w
	// colluding Byzantine replicas share what they sign
	if len(a.votes) < 4096 {
		a.votes = append(a.votes, *c)
	}
	if has(acts, "stalechain") && a.chance(0.35) {
		a.staleChain(nd)
	}
	if has(acts, "padbits") && a.chance(0.8) {
		// its genuine vote, the signer bit field padded with zero bytes (BLS)
		if ps := padBLS(c.Signature(), 1+a.intn(3)); ps != nil {
			a.sendTo(nd, to, "vote", hotstuff.VoteMsg{ID: nd.id, PartialCert: hotstuff.NewPartialCert(ps, c.BlockHash())})
			a.fired("padbits-vote")
			return true
		}
	}
	switch {
	case has(acts, "dupvote") && a.chance(0.5):
		for i := 0; i < 2+a.intn(3); i++ {
			a.sendTo(nd, to, "vote", hotstuff.VoteMsg{ID: nd.id, PartialCert: *c})
		}
		a.fired("dupvote")
		return true
	case has(acts, "multivote") && a.chance(0.6):
		// a vote whose signature object names two signers (its own twice, or its own plus a replayed one)
		var sig hotstuff.QuorumSignature
		var same []hotstuff.PartialCert // votes of other replicas for the same block, if the adversary holds any
		for _, v := range a.votes {
			if v.BlockHash() == c.BlockHash() && v.Signer() != nd.id {
				same = append(same, v)
			}
		}
		if len(same) == 0 && (a.chance(0.5) || len(a.votes) == 0) {
			sig = repeatSig(c.Signature(), 2)
		} else {
			other := a.votes[a.intn(len(a.votes))]
			if len(same) > 0 {
				other = same[a.intn(len(same))]
				a.fired("multivote-colluding")
			}
			if comb, err := nd.raw.Combine(c.Signature(), other.Signature()); err == nil {
				sig = comb
			}
		}
		if sig == nil {
			return false
		}
		a.sendTo(nd, to, "vote", hotstuff.VoteMsg{ID: nd.id, PartialCert: hotstuff.NewPartialCert(sig, c.BlockHash())})
		a.fired("multivote")
		return true
	case has(acts, "forgevote") && a.chance(0.7):
		// votes for the same block that name other replicas as signers (the signature bytes are its own):
		// invalid, and racing with the genuine votes of the replicas they name
		for k := 0; k < 1+a.intn(2); k++ {
			victim := hotstuff.ID(1 + a.intn(w.plan.N))
			if victim == nd.id {
				continue
			}
			if sig := claimSigner(w.plan.Crypto, c.Signature(), victim); sig != nil {
				a.sendTo(nd, to, "vote", hotstuff.VoteMsg{ID: nd.id, PartialCert: hotstuff.NewPartialCert(sig, c.BlockHash())})
				if a.chance(0.5) {
					// the same bytes again at once: two verifications of one invalid vote in flight together
					a.sendTo(nd, to, "vote", hotstuff.VoteMsg{ID: nd.id, PartialCert: hotstuff.NewPartialCert(sig, c.BlockHash())})
				}
			}
		}
		a.sendTo(nd, to, "vote", hotstuff.VoteMsg{ID: nd.id, PartialCert: *c})
		a.fired("forgevote")
		return true
	case has(acts, "zerovote") && a.chance(0.6):
		a.sendTo(nd, to, "vote", hotstuff.VoteMsg{ID: nd.id, PartialCert: hotstuff.NewPartialCert(emptySig(w.plan.Crypto), c.BlockHash())})
		a.fired("zerovote")
		return true
	case has(acts, "unknownvote") && a.chance(0.5):
		var h hotstuff.Hash
		h[0], h[1] = byte(a.roll()), byte(a.roll())
		a.sendTo(nd, to, "vote", hotstuff.VoteMsg{ID: nd.id, PartialCert: hotstuff.NewPartialCert(c.Signature(), h)})
		a.sendTo(nd, to, "vote", hotstuff.VoteMsg{ID: nd.id, PartialCert: *c})
		a.fired("unknownvote")
		return true
	case has(acts, "strayvote") && a.chance(0.5):
		for _, id := range a.others(nd) {
			a.sendTo(nd, id, "vote", hotstuff.VoteMsg{ID: nd.id, PartialCert: *c})
		}
		a.fired("strayvote")
		return true
	case has(acts, "replay") && len(a.votes) > 0 && a.chance(0.5):
		// an old vote of somebody else, re-sent under one's own transport identity
		a.sendTo(nd, to, "vote", hotstuff.VoteMsg{ID: nd.id, PartialCert: a.votes[a.intn(len(a.votes))]})
		a.sendTo(nd, to, "vote", hotstuff.VoteMsg{ID: nd.id, PartialCert: *c})
		a.fired("replay-vote")
		return true
	}
	return false
}

// staleChain: proposals for views the victim has left behind. The Byzantine replica makes up a chain Y1 <- Y2 <- Y3
// on top of an honest replica's committed block, in the views right above it, "certified" by nobody but itself, and a
// fourth block on top of Y3; it sends them as proposals to that replica, which has voted or timed out in all these
// views. Nothing in them may be acted upon: if the replica applied its commit rule to them, Y1 would be committed.
func (a *adversary) staleChain(nd *Node) {
	w := a.w
	var honest []*Node
	for _, x := range w.nodes {
		if x.honest && !x.crashed {
			honest = append(honest, x)
		}
	}
	if len(honest) == 0 {
		return
	}
	v := honest[a.intn(len(honest))]
	base := v.states.CommittedBlock()
	cur := v.states.View()
	if base == nil || cur < base.View()+4 {
		a.fired("stalechain-no-room")
		return
	}
	fake := func(b *hotstuff.Block) (hotstuff.QuorumCert, bool) {
		own := a.ownSig(nd, b.ToBytes())
		if own == nil {
			return hotstuff.QuorumCert{}, false
		}
		if rs := repeatSig(own, w.orc.q); rs != nil && a.chance(0.5) {
			own = rs
		}
		return hotstuff.NewQuorumCert(own, b.View(), b.Hash()), true
	}
	// the first block carries the genuine certificate of the committed block if the adversary has seen it
	qc, ok := fake(base)
	for _, x := range a.qcs {
		if x.BlockHash() == base.Hash() {
			qc = x
		}
	}
	if !ok {
		return
	}
	parent := base
	var chain []*hotstuff.Block
	for i := 1; i <= 4; i++ {
		view := base.View() + hotstuff.View(i)
		if i == 4 {
			view = cur - 1 // the newest view the victim can no longer vote in (at least base+3)
		}
		batch := &clientpb.Batch{Commands: []*clientpb.Command{{ClientID: 7000 + uint32(nd.id), SequenceNumber: a.ctr, Data: []byte(fmt.Sprintf("stale%d", i))}}}
		b := hotstuff.NewBlock(parent.Hash(), qc, batch, view, nd.id)
		w.reg.add(b, nd)
		chain = append(chain, b)
		if qc, ok = fake(b); !ok {
			return
		}
		parent = b
	}
	for rep := 0; rep < 2; rep++ {
		for i, b := range chain {
			if rep == 1 && i < 3 {
				continue
			}
			a.sendTo(nd, v.id, "propose", hotstuff.ProposeMsg{ID: nd.id, Block: b})
		}
	}
	a.fired("stalechain")
}

func (a *adversary) onNewView(nd *Node, to hotstuff.ID, si *hotstuff.SyncInfo) bool {
	acts := a.acts(nd)
	if acts == nil || !a.chance(nd.byz.Rate) {
		return false
	}
	if has(acts, "spoofproposer") && a.chance(0.6) {
		// not the leader of its view: a well-formed proposal for that view that names the leader as proposer,
		// sent over the Byzantine replica's own connections
		view := nd.states.View()
		if leader := nd.leader.inner.GetLeader(view); leader != nd.id && leader != 0 {
			qc := nd.states.HighQC()
			if qc.View() < view {
				a.ctr++
				batch := &clientpb.Batch{Commands: []*clientpb.Command{{ClientID: 7100 + uint32(nd.id), SequenceNumber: a.ctr, Data: []byte("spoof")}}}
				b := hotstuff.NewBlock(qc.BlockHash(), qc, batch, view, leader)
				a.w.reg.add(b, nd)
				for _, id := range a.others(nd) {
					if id != leader {
						a.sendTo(nd, id, "propose", hotstuff.ProposeMsg{ID: nd.id, Block: b})
					}
				}
				a.fired("spoofproposer")
			}
		}
	}
	if has(acts, "roguekey") && a.chance(0.8) {
		if qc, ok := a.rogueKeyQC(nd); ok {
			for _, id := range a.others(nd) {
				a.sendTo(nd, id, "newview", hotstuff.NewViewMsg{ID: nd.id, SyncInfo: hotstuff.NewSyncInfoWith(qc), FromNetwork: true})
			}
			a.fired("roguekey")
			return true
		}
	}
	if agg, ok := si.AggQC(); ok && has(acts, "aggswap") && a.chance(0.8) {
		if sw, ok := a.swapInAggregate(nd, agg); ok {
			fsi := *si
			fsi.SetAggQC(sw)
			for _, id := range a.others(nd) {
				a.sendTo(nd, id, "newview", hotstuff.NewViewMsg{ID: nd.id, SyncInfo: fsi, FromNetwork: true})
			}
			a.fired("aggswap")
			return true
		}
	}
	if agg, ok := si.AggQC(); ok && has(acts, "aggtwin") && a.chance(0.8) {
		if tw, ok := a.twinInAggregate(nd, agg); ok {
			fsi := *si
			fsi.SetAggQC(tw)
			for _, id := range a.others(nd) {
				a.sendTo(nd, id, "newview", hotstuff.NewViewMsg{ID: nd.id, SyncInfo: fsi, FromNetwork: true})
			}
			a.fired("aggtwin")
			return true
		}
	}
	if has(acts, "agglone") && nd.cfg.HasAggregateQC() && a.chance(0.7) {
		if agg, ok := a.loneAggregate(nd); ok {
			fsi := hotstuff.NewSyncInfoWith(agg)
			if len(a.tcs) > 0 && a.chance(0.5) {
				fsi.SetTC(a.tcs[len(a.tcs)-1])
			}
			for _, id := range a.others(nd) {
				a.sendTo(nd, id, "newview", hotstuff.NewViewMsg{ID: nd.id, SyncInfo: fsi, FromNetwork: true})
			}
			a.fired("agglone")
			return true
		}
	}
	if has(acts, "forgetc") && a.chance(0.7) {
		// a timeout certificate nobody backs, riding next to whatever valid certificate the replica was about to send
		fsi := *si
		fsi.SetTC(a.forgeTC(nd))
		for _, id := range a.others(nd) {
			a.sendTo(nd, id, "newview", hotstuff.NewViewMsg{ID: nd.id, SyncInfo: fsi, FromNetwork: true})
		}
		a.fired("forgetc-newview")
		return true
	}
	if f := a.pickForgery(acts); f != "" && a.chance(0.7) {
		if qc, ok := a.forgeQC(nd, f, nd.states.View()); ok {
			fsi := hotstuff.NewSyncInfoWith(qc)
			if len(a.tcs) > 0 && a.chance(0.5) {
				// ... riding next to the newest genuine timeout certificate (for a view above the forged QC's)
				tc := a.tcs[0]
				for _, c := range a.tcs {
					if c.View() > tc.View() {
						tc = c
					}
				}
				fsi.SetTC(tc)
			}
			targets := []hotstuff.ID{to}
			if a.chance(0.5) {
				targets = a.others(nd)
			}
			for _, id := range targets {
				a.sendTo(nd, id, "newview", hotstuff.NewViewMsg{ID: nd.id, SyncInfo: fsi, FromNetwork: true})
			}
			a.fired("forged-qc-newview:" + f)
			return true
		}
	}
	if has(acts, "aggreplay") && len(a.aggs) > 0 && a.chance(0.7) {
		// an aggregate certificate seen earlier, replayed as is or with its view or one per-signer QC altered
		agg := a.aggs[a.intn(len(a.aggs))]
		switch a.intn(7) {
		case 5, 6:
			// one signature entry more than QC entries: the Byzantine replica's own signature (over its own timeout
			// message) is added to the aggregate signature, but the map gets no QC for it
			if _, listed := agg.QCs()[nd.id]; !listed {
				own := a.ownSig(nd, hotstuff.TimeoutMsg{ID: nd.id, View: agg.View(), SyncInfo: hotstuff.NewSyncInfoWith(nd.states.HighQC())}.ToBytes())
				if own != nil {
					if sig := replaceSigner(agg.Sig(), nd.id, own); sig != nil {
						agg = hotstuff.NewAggregateQC(agg.QCs(), sig, agg.View())
						a.fired("aggreplay-extra-signature")
					}
				}
			}
		case 3, 4:
			// the same signature over a padded batch: an extra per-replica QC for somebody who did not sign
			qcs := map[hotstuff.ID]hotstuff.QuorumCert{}
			var any hotstuff.QuorumCert
			for id := 1; id <= a.w.plan.N; id++ {
				if qc, ok := agg.QCs()[hotstuff.ID(id)]; ok {
					qcs[hotstuff.ID(id)] = qc
					any = qc
				}
			}
			for id := 1; id <= a.w.plan.N; id++ {
				if _, ok := qcs[hotstuff.ID(id)]; !ok {
					qcs[hotstuff.ID(id)] = any
					break
				}
			}
			agg = hotstuff.NewAggregateQC(qcs, agg.Sig(), agg.View())
		case 1:
			agg = hotstuff.NewAggregateQC(agg.QCs(), agg.Sig(), agg.View()+hotstuff.View(1+a.intn(8)))
		case 2:
			qcs := map[hotstuff.ID]hotstuff.QuorumCert{}
			for id, qc := range agg.QCs() {
				qcs[id] = qc
			}
			if len(a.qcs) > 0 {
				for id := 1; id <= a.w.plan.N; id++ { // lowest signer: map order must not decide
					if _, ok := qcs[hotstuff.ID(id)]; ok {
						qcs[hotstuff.ID(id)] = a.qcs[a.intn(len(a.qcs))]
						break
					}
				}
			}
			agg = hotstuff.NewAggregateQC(qcs, agg.Sig(), agg.View())
		}
		si := hotstuff.NewSyncInfoWith(agg)
		for _, id := range a.others(nd) {
			a.sendTo(nd, id, "newview", hotstuff.NewViewMsg{ID: nd.id, SyncInfo: si, FromNetwork: true})
		}
		a.fired("aggreplay")
	}
	if has(acts, "replay") && len(a.qcs) > 0 && a.chance(0.4) {
		old := a.qcs[a.intn(len(a.qcs))]
		for _, id := range a.others(nd) {
			a.sendTo(nd, id, "newview", hotstuff.NewViewMsg{ID: nd.id, SyncInfo: hotstuff.NewSyncInfoWith(old), FromNetwork: true})
		}
		a.fired("replay-qc")
	}
	return false
}

// onFetch lets a Byzantine peer answer a block request with a block of its own choosing.
func (a *adversary) onFetch(peer, asker *Node, h hotstuff.Hash) *hotstuff.Block {
	acts := a.acts(peer)
	if acts == nil || !has(acts, "liefetch") || !a.chance(peer.byz.Rate) {
		return nil
	}
	if lie, ok := a.lies[h]; ok {
		return lie
	}
	// a look-alike: same view and parent if the real block is known, different content
	real := a.w.reg.get(h)
	var lie *hotstuff.Block
	if real != nil && mix(a.w.plan.Inner, 0x73686173, a.ctr)%3 == 0 {
		// a different block with the hash that was asked for: one command fewer, the cut-off bytes moved into the fields
		// of the embedded certificate (nothing frames the batch inside the hashed bytes)
		if lie := sameHashFewerCommands(real); lie != nil {
			a.fired("liefetch-same-hash-fewer-commands")
			a.lies[h] = lie
			return lie
		}
	}
	if real != nil && real.QuorumCert().Signature() != nil && mix(a.w.plan.Inner, 0x72656c62, a.ctr)%2 == 0 {
		// the block that was asked for, in every byte that is signed or hashed - but the certificate it embeds names
		// other replicas as its signers
		ps := permuteSig(real.QuorumCert().Signature())
		if ps == nil {
			ps = relabelBLS(real.QuorumCert().Signature(), a.w.plan.N)
		}
		if ps != nil {
			lie = hotstuff.NewBlock(real.Parent(), hotstuff.NewQuorumCert(ps, real.QuorumCert().View(), real.QuorumCert().BlockHash()), real.Commands(), real.View(), real.Proposer())
			lie.SetTimestamp(real.Timestamp())
			a.fired("liefetch-relabelled-certificate")
			a.lies[h] = lie
			return lie
		}
	}
	if real != nil {
		lie = hotstuff.NewBlock(real.Parent(), real.QuorumCert(), &clientpb.Batch{Commands: []*clientpb.Command{{ClientID: 7000, SequenceNumber: a.ctr, Data: []byte("lie")}}}, real.View(), real.Proposer())
	} else {
		lie = a.craftBlock(peer, peer.states.View())
	}
	a.w.reg.add(lie, peer)
	a.lies[h] = lie
	return lie
}

// sameHashFewerCommands builds a block that hashes like real but carries one command fewer: Block.ToBytes puts the
// marshalled batch and the certificate's bytes next to each other, so the bytes of the last command can be read as the
// beginning of the certificate (its view, its block hash, the first signature entry). Works for multi-signatures,
// whose entries are byte strings of any length.
func sameHashFewerCommands(real *hotstuff.Block) *hotstuff.Block {
	cmds := real.Commands().GetCommands()
	qc := real.QuorumCert()
	if len(cmds) == 0 || qc.Signature() == nil {
		return nil
	}
	full := real.Commands().Marshal()
	fewer := &clientpb.Batch{Commands: cmds[:len(cmds)-1]}
	short := fewer.Marshal()
	if !bytes.HasPrefix(full, short) || len(full) == len(short) {
		return nil
	}
	x := full[len(short):]
	head := append(append([]byte{}, x...), qc.View().ToBytes()...)
	bh := qc.BlockHash()
	head = append(head, bh[:]...) // x, view, hash: the first 40 bytes become the new view and hash, the rest goes to the first entry
	view2 := hotstuff.View(binary.LittleEndian.Uint64(head[:8]))
	var h2 hotstuff.Hash
	copy(h2[:], head[8:40])
	z := head[40:]
	var sig2 hotstuff.QuorumSignature
	switch s := qc.Signature().(type) {
	case crypto.Multi[*crypto.EDDSASignature]:
		if len(s) == 0 {
			return nil
		}
		out := make(crypto.Multi[*crypto.EDDSASignature], 0, len(s))
		for i, e := range s {
			b := e.ToBytes()
			if i == 0 {
				b = append(append([]byte{}, z...), b...)
			}
			out = append(out, crypto.RestoreEDDSASignature(b, e.Signer()))
		}
		sig2 = out
	case crypto.Multi[*crypto.ECDSASignature]:
		if len(s) == 0 {
			return nil
		}
		out := make(crypto.Multi[*crypto.ECDSASignature], 0, len(s))
		for i, e := range s {
			b := e.ToBytes()
			if i == 0 {
				b = append(append([]byte{}, z...), b...)
			}
			out = append(out, crypto.RestoreECDSASignature(b, e.Signer()))
		}
		sig2 = out
	default:
		return nil
	}
	lie := hotstuff.NewBlock(real.Parent(), hotstuff.NewQuorumCert(sig2, view2, h2), fewer, real.View(), real.Proposer())
	lie.SetTimestamp(real.Timestamp())
	if lie.Hash() != real.Hash() {
		return nil
	}
	return lie
}

// onFetchMalformed: a Byzantine peer answers a block request with something that is not a complete block.
func (a *adversary) onFetchMalformed(peer, asker *Node, h hotstuff.Hash) *hotstuffpb.Block {
	acts := a.acts(peer)
	if acts == nil || !has(acts, "liefetch") || !a.chance(peer.byz.Rate) || !a.chance(0.35) {
		return nil
	}
	real := a.w.reg.get(h)
	switch a.intn(5) {
	case 0:
		return &hotstuffpb.Block{}
	case 1:
		if real != nil {
			pb := hotstuffpb.BlockToProto(real)
			pb.QC = nil
			return pb
		}
	case 2:
		if real != nil {
			pb := hotstuffpb.BlockToProto(real)
			pb.Parent = pb.Parent[:len(pb.Parent)/2]
			return pb
		}
	case 3:
		if real != nil {
			pb := hotstuffpb.BlockToProto(real)
			pb.Timestamp = nil
			pb.Commands = nil
			return pb
		}
	}
	return &hotstuffpb.Block{View: uint64(a.roll() % 50), Proposer: uint32(peer.id)}
}

func (a *adversary) inject(in Inject) { a.injectWire(in) }

// onContribution: a Byzantine tree node, besides its real contribution, sends forged partial aggregates
// (its own signature bytes under other replicas' names) to its parent and to the root, some of them
// late enough to arrive after the receiver's aggregation timer has expired.
// anonContribution: the Byzantine tree node's genuine partial aggregate, but the message names no sender, replica 0
// or a replica far outside the configuration (the field is the sender's to fill in and no signature covers it).
func (a *adversary) anonContribution(nd *Node, parent hotstuff.ID, c *kauripb.Contribution) bool {
	acts := a.acts(nd)
	if acts == nil || !has(acts, "anoncontrib") || !a.chance(nd.byz.Rate) || !a.chance(0.7) {
		return false
	}
	cp := &kauripb.Contribution{Signature: c.Signature, View: c.View}
	switch a.intn(3) {
	case 1:
		cp.ID = 0xffffffff
	case 2:
		cp.ID = uint32(a.w.plan.N + 1 + a.intn(1000))
	}
	a.sendTo(nd, parent, "contrib", cp)
	a.fired("anoncontrib")
	return true
}

func (a *adversary) onContribution(nd *Node, view hotstuff.View, sig hotstuff.QuorumSignature) {
	acts := a.acts(nd)
	if acts == nil || !has(acts, "forgecontrib") || sig == nil || !a.chance(nd.byz.Rate) {
		return
	}
	tr := nd.cfg.Tree()
	if tr == nil {
		return
	}
	w := a.w
	var forged hotstuff.QuorumSignature
	k := 1 + a.intn(3)
	switch s := sig.(type) {
	case crypto.Multi[*crypto.EDDSASignature]:
		if len(s) == 0 {
			return
		}
		out := crypto.Multi[*crypto.EDDSASignature]{}
		for i := 0; i < k; i++ {
			out = append(out, crypto.RestoreEDDSASignature(s[0].ToBytes(), hotstuff.ID(1+a.intn(w.plan.N))))
		}
		forged = out
	case crypto.Multi[*crypto.ECDSASignature]:
		if len(s) == 0 {
			return
		}
		out := crypto.Multi[*crypto.ECDSASignature]{}
		for i := 0; i < k; i++ {
			out = append(out, crypto.RestoreECDSASignature(s[0].ToBytes(), hotstuff.ID(1+a.intn(w.plan.N))))
		}
		forged = out
	default:
		forged = claimSigner(w.plan.Crypto, sig, hotstuff.ID(1+a.intn(w.plan.N)))
	}
	if forged == nil {
		return
	}
	c := &kauripb.Contribution{ID: uint32(nd.id), Signature: hotstuffpb.QuorumSignatureToProto(forged), View: uint64(view)}
	targets := []hotstuff.ID{tr.Root()}
	if p, ok := tr.Parent(); ok {
		targets = append(targets, p)
	}
	for _, to := range targets {
		to := to
		// now, or around the time the receiver's aggregation timer runs out
		d := time.Duration(a.roll()%uint64(3*tr.WaitTime()+time.Millisecond))
		if a.chance(0.3) {
			d = 0
		}
		w.after(d, "adv-contrib", func() {
			if !w.ended {
				a.sendTo(nd, to, "contrib", c)
			}
		})
	}
	a.fired("forgecontrib")
}
