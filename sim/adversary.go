package zz_verifsim

import (
	"github.com/relab/hotstuff"
)

// adversary drives the scripted Byzantine replicas. (Filled in below; the hooks return true
// when the adversary has taken over the sending of a message.)
type adversary struct {
	w *World
}

func newAdversary(w *World) *adversary { return &adversary{w: w} }

func (a *adversary) onPropose(nd *Node, p *hotstuff.ProposeMsg) bool             { return false }
func (a *adversary) onTimeout(nd *Node, m *hotstuff.TimeoutMsg) bool              { return false }
func (a *adversary) onVote(nd *Node, to hotstuff.ID, c *hotstuff.PartialCert) bool { return false }
func (a *adversary) onNewView(nd *Node, to hotstuff.ID, si *hotstuff.SyncInfo) bool { return false }
func (a *adversary) onFetch(peer, asker *Node, h hotstuff.Hash) *hotstuff.Block     { return nil }
func (a *adversary) inject(in Inject)                                              {}
