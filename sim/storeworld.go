package zz_verifsim

import (
	"fmt"
	"io"
	"testing"
	"time"

	"github.com/relab/hotstuff"
	"github.com/relab/hotstuff/core/eventloop"
	"github.com/relab/hotstuff/internal/proto/clientpb"
	"github.com/relab/hotstuff/internal/proto/hotstuffpb"
	"github.com/relab/hotstuff/security/blockchain"
)

// Store world (every third C13 seed): a seeded block forest (forks, equivocation with equal and different
// parents, view gaps, blocks that are only fetchable or not available at all) and a seeded sequence of
// store / store-again / get / extends / commit operations against TWO real Blockchain instances: B receives
// the same operations as A except that it never stores a block twice. Checks: content addressing, Extends
// against exact ancestry, abandoned-block reports against the committed chain (never on it, at most once),
// and that A and B — which differ only by idempotent operations and by which object stands for a block — report the same.

func GenStorePlan(seed uint64) *Plan {
	g := newGen(seed, 13)
	p := &Plan{Version: 1, Property: "C13", Seed: seed, Inner: g.u64(), World: "store", UntilMs: 1, MaxSteps: 100000}
	p.Knobs = map[string]int{"blocks": g.rng(4, 50), "forkPct": pick(g, 10, 30, 50), "equivPct": pick(g, 0, 15, 40), "gapPct": pick(g, 0, 15, 40),
		"missPct": pick(g, 0, 0, 8), "fetchPct": pick(g, 0, 15, 40), "againPct": pick(g, 0, 20, 50), "ops": g.rng(10, 150), "copyPct": pick(g, 0, 30, 60)}
	return p
}

func runStoreWorld(t *testing.T, p *Plan, want []string, logw io.Writer) *Result {
	start := time.Now()
	res := &Result{Seed: p.Seed, Stats: newStats()}
	st := res.Stats
	g := newGen(p.Inner, 31)
	k := func(name string) int { return p.knob(name, 0) }
	pct := func(name string) bool { return g.intn(100) < k(name) }
	logf := func(format string, a ...any) {
		line := fmt.Sprintf(format, a...)
		st.Fingerprint = mix(st.Fingerprint, hashStr(line))
		if logw != nil {
			_, _ = io.WriteString(logw, line+"\n")
		}
	}
	viol := func(class, format string, a ...any) {
		if res.Violation == nil {
			res.Violation = &Violation{Property: "C13", Class: class, Step: st.Steps, Detail: fmt.Sprintf(format, a...)}
			logf("VIOLATION %s %s", class, res.Violation.Detail)
		}
	}
	type fb struct {
		b    *hotstuff.Block
		name string
		par  *fb
	}
	gen := &fb{b: hotstuff.GetGenesis(), name: "G"}
	all := []*fb{gen}
	byHash := map[hotstuff.Hash]*fb{gen.b.Hash(): gen}
	avail := map[hotstuff.Hash]*hotstuff.Block{}
	tip := gen
	for i := 1; i <= k("blocks"); i++ {
		parent := tip
		if pct("forkPct") {
			parent = all[g.intn(len(all))]
		}
		view := parent.b.View() + 1
		if pct("gapPct") {
			view += hotstuff.View(g.rng(1, 3))
		}
		if pct("equivPct") && len(all) > 2 {
			// a second block for a view that already has one, possibly with another parent
			other := all[1+g.intn(len(all)-1)]
			if other.b.View() > parent.b.View() {
				view = other.b.View()
			}
		}
		qc := hotstuff.NewQuorumCert(nil, parent.b.View(), parent.b.Hash())
		b := hotstuff.NewBlock(parent.b.Hash(), qc, &clientpb.Batch{Commands: []*clientpb.Command{{ClientID: 1, SequenceNumber: uint64(i)}}}, view, hotstuff.ID(1+g.intn(4)))
		f := &fb{b: b, name: fmt.Sprintf("S%d(v%d,par=%s)", i, view, parent.name[:idxOr(parent.name, '(')]), par: parent}
		all = append(all, f)
		byHash[b.Hash()] = f
		if !pct("missPct") {
			avail[b.Hash()] = b
		}
		if !pct("forkPct") {
			tip = f
		}
	}
	mk := func() (*blockchain.Blockchain, *forestSender) {
		lg := &simLogger{nd: &Node{w: &World{stats: st}}}
		el := eventloop.New(lg, 16)
		snd := &forestSender{avail: avail}
		return blockchain.New(el, lg, snd), snd
	}
	A, _ := mk()
	B, _ := mk()
	// copyPct: store A is sometimes handed another object for the same block (what a second decoding of the same
	// message, or a fetched copy next to the proposal, is); plans without the knob draw nothing here
	viaCopy := func(b *hotstuff.Block) *hotstuff.Block {
		if k("copyPct") > 0 && pct("copyPct") {
			st.Faults["block-as-another-object"]++
			return hotstuffpb.BlockFromProto(hotstuffpb.BlockToProto(b))
		}
		return b
	}
	storedB := map[hotstuff.Hash]bool{gen.b.Hash(): true}
	held := []*fb{gen} // blocks some replica has stored or fetched (same for A and B)
	heldSet := map[hotstuff.Hash]bool{gen.b.Hash(): true}
	hold := func(f *fb) {
		if !heldSet[f.b.Hash()] {
			heldSet[f.b.Hash()] = true
			held = append(held, f)
		}
	}
	committed := gen
	onChain := map[hotstuff.Hash]bool{gen.b.Hash(): true}
	reported := map[hotstuff.Hash]int{}
	name := func(b *hotstuff.Block) string {
		if b == nil {
			return "none"
		}
		if f := byHash[b.Hash()]; f != nil {
			return f.name
		}
		return "?"
	}
	ancestry := func(b, target *fb) (ans bool, inDomain bool) { // exact, by parent links; domain: views grow, ancestors obtainable
		cur := b
		for cur.b.View() > target.b.View() {
			if cur.par == nil {
				return false, true
			}
			if _, ok := avail[cur.par.b.Hash()]; !ok && !heldSet[cur.par.b.Hash()] {
				return false, true // the ancestor cannot be obtained: not an ancestor as far as the store can tell
			}
			if cur.par.b.View() >= cur.b.View() {
				return false, false
			}
			cur = cur.par
		}
		return cur == target, true
	}
	for op := 0; op < k("ops") && res.Violation == nil; op++ {
		st.Steps++
		switch g.weighted(30, 12, 12, 22, 24) {
		case 0: // store a block (creation order mostly, sometimes any)
			f := all[1+g.intn(len(all)-1)]
			if _, ok := avail[f.b.Hash()]; !ok {
				continue
			}
			logf("store %s", f.name)
			A.Store(viaCopy(f.b))
			if !storedB[f.b.Hash()] {
				B.Store(f.b)
				storedB[f.b.Hash()] = true
			} else {
				st.Faults["block-stored-again"]++
			}
			hold(f)
		case 1: // store again something already held
			if !pct("againPct") || len(held) < 2 {
				continue
			}
			f := held[1+g.intn(len(held)-1)]
			if lb, ok := A.LocalGet(f.b.Hash()); ok {
				logf("store-again %s", f.name)
				A.Store(lb)
				st.Faults["block-stored-again"]++
			}
		case 2: // get by hash: local, fetched, or unavailable
			f := all[g.intn(len(all))]
			ba, oka := A.Get(f.b.Hash())
			bb, okb := B.Get(f.b.Hash())
			logf("get %s -> %v", f.name, oka)
			st.Probes["c13-get-checked"]++
			if oka != okb {
				viol("C13/restore", "Get(%s) succeeds on one store and fails on the other although they differ only by blocks stored twice", f.name)
				break
			}
			if oka {
				if ba.Hash() != f.b.Hash() || bb.Hash() != f.b.Hash() {
					viol("C13/content", "Get(%s) returned a block with another hash", f.name)
					break
				}
				if !heldSet[f.b.Hash()] {
					st.Faults["block-fetched"]++
				}
				hold(f)
				storedB[f.b.Hash()] = true
			} else if _, ok := avail[f.b.Hash()]; ok || heldSet[f.b.Hash()] {
				viol("C13/content", "Get(%s) failed although the block is stored or can be fetched", f.name)
			}
		case 3: // ancestry query
			if len(held) < 2 {
				continue
			}
			b := held[g.intn(len(held))]
			tg := held[g.intn(len(held))]
			if g.p(0.6) {
				tg = b
				for j := g.intn(5); j > 0 && tg.par != nil; j-- {
					tg = tg.par
				}
				if !heldSet[tg.b.Hash()] {
					continue
				}
			}
			wantA, ok := ancestry(b, tg)
			if !ok {
				continue
			}
			ga := A.Extends(b.b, tg.b)
			gb := B.Extends(b.b, tg.b)
			// walking may have fetched ancestors
			for cur := b; cur != nil && cur.b.View() > tg.b.View(); cur = cur.par {
				if cur.par != nil {
					if _, ok := A.LocalGet(cur.par.b.Hash()); ok {
						hold(cur.par)
						storedB[cur.par.b.Hash()] = true
					}
				}
			}
			logf("extends %s %s -> %v", b.name, tg.name, ga)
			st.Probes["c13-extends-checked"]++
			if wantA {
				st.Probes["c13-extends-true"]++
			}
			if ga != wantA || gb != wantA {
				viol("C13/extends", "Extends(%s, %s) = %v / %v, but ancestry in the block forest says %v", b.name, tg.name, ga, gb, wantA)
			}
		case 4: // commit a held descendant of the last committed block whose path is held, as the committer does
			var cands []*fb
			for _, f := range held {
				if f.b.View() <= committed.b.View() {
					continue
				}
				ok := true
				cur := f
				for cur != nil && cur != committed {
					if !heldSet[cur.b.Hash()] || cur.par == nil || cur.par.b.View() >= cur.b.View() {
						ok = false
						break
					}
					cur = cur.par
				}
				if ok && cur == committed {
					cands = append(cands, f)
				}
			}
			if len(cands) == 0 {
				continue
			}
			c := cands[g.intn(len(cands))]
			for cur := c; cur != committed; cur = cur.par {
				onChain[cur.b.Hash()] = true
			}
			fa := A.PruneToHeight(viaCopy(c.b))
			fbk := B.PruneToHeight(c.b)
			committed = c
			logf("commit %s -> abandoned %d", c.name, len(fa))
			st.Commits++
			st.Probes["c13-commit-checked"]++
			seenNow := map[hotstuff.Hash]bool{}
			for _, x := range fa {
				st.Probes["c13-abort"]++
				if onChain[x.Hash()] {
					viol("C13/abort-committed", "committing %s reports %s as abandoned, but it is on the committed chain", c.name, name(x))
					break
				}
				reported[x.Hash()]++
				if reported[x.Hash()] > 1 || seenNow[x.Hash()] {
					viol("C13/abort-twice", "block %s is reported as abandoned twice", name(x))
					break
				}
				seenNow[x.Hash()] = true
			}
			if res.Violation == nil {
				sa, sb := map[hotstuff.Hash]bool{}, map[hotstuff.Hash]bool{}
				for _, x := range fa {
					sa[x.Hash()] = true
				}
				for _, x := range fbk {
					sb[x.Hash()] = true
				}
				same := len(sa) == len(sb)
				for h := range sa {
					if !sb[h] {
						same = false
					}
				}
				if !same {
					viol("C13/restore", "committing %s reports %d abandoned blocks on a store where some blocks were stored twice and %d on one where none was: storing a block again changed something", c.name, len(fa), len(fbk))
				}
			}
		}
	}
	// content addressing of everything held
	if res.Violation == nil {
		for _, f := range held {
			if b, ok := A.LocalGet(f.b.Hash()); ok && b.Hash() != f.b.Hash() {
				viol("C13/content", "the store holds under the hash of %s a block with another hash", f.name)
				break
			}
		}
	}
	res.Summary = fmt.Sprintf("store world blocks=%d fork=%d%% equiv=%d%% gap=%d%% again=%d%% ops=%d commits=%d", k("blocks"), k("forkPct"), k("equivPct"), k("gapPct"), k("againPct"), k("ops"), st.Commits)
	res.WallMs = float64(time.Since(start).Microseconds()) / 1000
	return res
}
