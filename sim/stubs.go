package zz_verifsim

import "testing/synctest"

func synctestWait() { synctest.Wait() }
