package zz_verifsim

import (
	"io"
	"testing"
	"testing/synctest"
)

func synctestWait() { synctest.Wait() }

func runEventLoopWorld(t *testing.T, p *Plan, want []string, logw io.Writer) *Result { return &Result{Seed: p.Seed, Harness: "not built"} }
func runCmdCacheWorld(t *testing.T, p *Plan, want []string, logw io.Writer) *Result  { return &Result{Seed: p.Seed, Harness: "not built"} }
func runPuppetWorld(t *testing.T, p *Plan, want []string, logw io.Writer) *Result    { return &Result{Seed: p.Seed, Harness: "not built"} }
