package zz_verifsim

import (
	"io"
	"testing"
)

type clientSet struct{ w *World }

func newClientSet(w *World) *clientSet { return &clientSet{w: w} }
func (c *clientSet) shutdown()         {}

func runEventLoopWorld(t *testing.T, p *Plan, want []string, logw io.Writer) *Result { return &Result{Seed: p.Seed, Harness: "not built"} }
func runCmdCacheWorld(t *testing.T, p *Plan, want []string, logw io.Writer) *Result  { return &Result{Seed: p.Seed, Harness: "not built"} }
func runPuppetWorld(t *testing.T, p *Plan, want []string, logw io.Writer) *Result    { return &Result{Seed: p.Seed, Harness: "not built"} }
