package zz_verifsim

import (
	"io"
	"testing"
	"testing/synctest"
)

func synctestWait() { synctest.Wait() }

func runCmdCacheWorld(t *testing.T, p *Plan, want []string, logw io.Writer) *Result  { return &Result{Seed: p.Seed, Harness: "not built"} }
