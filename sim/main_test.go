package zz_verifsim

import (
	"bufio"
	"encoding/json"
	"fmt"
	"io"
	"os"
	"runtime"
	"strconv"
	"strings"
	"testing"
	"time"
)

// TestSim is the single entry point of the simulator binary. It is driven by environment variables
// (set by /verif/check):
//
//	VERIF_MODE   batch | replay | plan
//	VERIF_PROP   property id (selects the plan profile and the enabled oracles)
//	VERIF_SEEDS  first:count (batch)
//	VERIF_PLAN   path of a plan file (replay)
//	VERIF_OUT    path of the JSON-lines result file
//	VERIF_LOG    path of a full symbolic event log (optional)
func TestSim(t *testing.T) {
	mode := os.Getenv("VERIF_MODE")
	if mode == "" {
		t.Skip("VERIF_MODE not set")
	}
	prop := os.Getenv("VERIF_PROP")
	out := io.Writer(os.Stdout)
	if path := os.Getenv("VERIF_OUT"); path != "" {
		f, err := os.Create(path)
		if err != nil {
			t.Fatal(err)
		}
		defer f.Close()
		out = f
	}
	bw := bufio.NewWriter(out)
	defer bw.Flush()
	emit := func(v any) {
		b, _ := json.Marshal(v)
		_, _ = bw.Write(b)
		_ = bw.WriteByte('\n')
		_ = bw.Flush()
	}
	var logw io.Writer
	if path := os.Getenv("VERIF_LOG"); path != "" {
		f, err := os.Create(path)
		if err != nil {
			t.Fatal(err)
		}
		defer f.Close()
		lw := bufio.NewWriter(f)
		defer lw.Flush()
		logw = lw
	}
	want := strings.Split(prop, ",")
	switch mode {
	case "batch":
		parts := strings.Split(os.Getenv("VERIF_SEEDS"), ":")
		first, _ := strconv.ParseUint(parts[0], 10, 64)
		count, _ := strconv.ParseUint(parts[1], 10, 64)
		deadline, _ := strconv.ParseInt(os.Getenv("VERIF_DEADLINE_UNIX"), 10, 64)
		for s := first; s < first+count; s++ {
			if deadline > 0 && time.Now().Unix() >= deadline {
				emit(map[string]any{"stoppedAt": s})
				break
			}
			emit(map[string]any{"start": s})
			p := planFor(want[0], s)
			stop := watchdog(fmt.Sprintf("seed=%d", s))
			res := RunPlan(t, p, want, logw)
			stop()
			emit(map[string]any{"done": s, "result": res, "planDigest": planDigest(p)})
			if res.Violation != nil {
				p.Violation = res.Violation
				emit(map[string]any{"violationPlan": p})
			}
		}
	case "replay":
		p, err := LoadPlan(os.Getenv("VERIF_PLAN"))
		if err != nil {
			t.Fatal(err)
		}
		if prop == "" {
			want = []string{p.Property}
		}
		stop := watchdog(fmt.Sprintf("seed=%d", p.Seed))
		res := RunPlan(t, p, want, logw)
		stop()
		emit(map[string]any{"done": p.Seed, "result": res})
	case "plan":
		s, _ := strconv.ParseUint(os.Getenv("VERIF_SEEDS"), 10, 64)
		fmt.Fprintln(bw, string(planFor(want[0], s).JSON()))
	default:
		t.Fatalf("unknown VERIF_MODE %q", mode)
	}
}

// watchdog aborts the process when one run exceeds its wall-clock limit (a busy loop in the code
// under test cannot be pre-empted from inside the bubble). It runs outside the bubble, on the real clock.
func watchdog(what string) (stop func()) {
	limit := 30 * time.Second
	if v := os.Getenv("VERIF_RUN_LIMIT_S"); v != "" {
		if n, err := strconv.Atoi(v); err == nil {
			limit = time.Duration(n) * time.Second
		}
	}
	tm := time.AfterFunc(limit, func() {
		fmt.Fprintf(os.Stderr, "\nWATCHDOG %s exceeded %v\n", what, limit)
		buf := make([]byte, 1<<20)
		n := runtime.Stack(buf, true)
		_, _ = os.Stderr.Write(buf[:n])
		os.Exit(3)
	})
	return func() { tm.Stop() }
}

func planFor(prop string, seed uint64) *Plan {
	switch prop {
	case "C14":
		return GenEventLoopPlan(seed)
	case "C15":
		return GenCmdCachePlan(seed)
	case "C13":
		if seed%3 == 0 {
			return GenStorePlan(seed)
		}
	case "C16":
		if seed%3 == 0 {
			return GenLeaderPlan(seed)
		}
	case "C04":
		if seed%2 == 0 {
			return GenPuppetPlan(prop, seed)
		}
	}
	return GenPlan(prop, seed)
}

func planDigest(p *Plan) string {
	return fmt.Sprintf("%s n=%d %s %s cache=%d wire=%v leader=%s byz=%d faults=%d inject=%d until=%dms",
		p.World, p.N, p.Ruleset, p.Crypto, p.Cache, p.Wire, p.Leader, len(p.Byz), len(p.Faults), len(p.Inject), p.UntilMs)
}

