//go:build verif

package network

import "github.com/relab/hotstuff/internal/proto/hotstuffpb"

// VerifRequestBlockQF exposes the real quorum function used for block fetches.
func VerifRequestBlockQF(in *hotstuffpb.BlockHash, replies map[uint32]*hotstuffpb.Block) (*hotstuffpb.Block, bool) {
	return qspec{}.RequestBlockQF(in, replies)
}
