//go:build verif

package clientpb

// VerifFreshCount returns how many cached commands are not yet marked as proposed.
func (c *CommandCache) VerifFreshCount() int {
	c.mut.Lock()
	defer c.mut.Unlock()
	n := 0
	for _, cmd := range c.cache {
		if !c.isDuplicate(cmd) {
			n++
		}
	}
	return n
}
