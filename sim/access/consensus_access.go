//go:build verif

package consensus

import "github.com/relab/hotstuff"

// VerifLastVotedView returns the highest view the voter voted or stopped voting in.
func (v *Voter) VerifLastVotedView() hotstuff.View { return v.lastVotedView }
