//go:build verif

package server

// Injected by /verif with go's -overlay; never written into /repo.
// Gives the simulator the real, unexported RPC service implementation.

import (
	"github.com/relab/gorums"
	"github.com/relab/hotstuff/core"
	"github.com/relab/hotstuff/core/eventloop"
	"github.com/relab/hotstuff/core/logging"
	"github.com/relab/hotstuff/internal/latency"
	"github.com/relab/hotstuff/internal/proto/hotstuffpb"
	"github.com/relab/hotstuff/security/blockchain"
)

// VerifService exposes the real serviceImpl handlers.
type VerifService struct{ impl *serviceImpl }

// VerifNewService builds a Server without a gorums server or listener and returns its service handlers.
// With locations (one per replica) the server emulates wide-area latencies, as NewServer does given WithLatencies.
func VerifNewService(el *eventloop.EventLoop, logger logging.Logger, config *core.RuntimeConfig, bc *blockchain.Blockchain, locations []string) *VerifService {
	srv := &Server{blockchain: bc, eventLoop: el, logger: logger, config: config, id: config.ID()}
	if len(locations) > 0 {
		srv.lm = latency.MatrixFrom(locations)
	}
	return &VerifService{impl: &serviceImpl{srv}}
}

func (s *VerifService) Propose(ctx gorums.ServerCtx, p *hotstuffpb.Proposal)   { s.impl.Propose(ctx, p) }
func (s *VerifService) Vote(ctx gorums.ServerCtx, c *hotstuffpb.PartialCert)   { s.impl.Vote(ctx, c) }
func (s *VerifService) NewView(ctx gorums.ServerCtx, m *hotstuffpb.SyncInfo)   { s.impl.NewView(ctx, m) }
func (s *VerifService) Timeout(ctx gorums.ServerCtx, m *hotstuffpb.TimeoutMsg) { s.impl.Timeout(ctx, m) }
func (s *VerifService) RequestBlock(ctx gorums.ServerCtx, h *hotstuffpb.BlockHash) (*hotstuffpb.Block, error) {
	return s.impl.RequestBlock(ctx, h)
}
