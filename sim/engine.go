package zz_verifsim

import (
	"bytes"
	"container/heap"
	"runtime"
	"strconv"
	"sync"
	"context"
	"fmt"
	"hash/fnv"
	"io"
	"runtime/debug"
	"strings"
	"testing/synctest"
	"time"

	"github.com/relab/hotstuff"
)

// ---- event heap: total order by (time, sequence) ------------------------------------------

type event struct {
	at  time.Duration
	seq uint64
	tag string
	run func()
}
type evHeap []*event

func (h evHeap) Len() int { return len(h) }
func (h evHeap) Less(i, j int) bool {
	if h[i].at != h[j].at {
		return h[i].at < h[j].at
	}
	return h[i].seq < h[j].seq
}
func (h evHeap) Swap(i, j int) { h[i], h[j] = h[j], h[i] }
func (h *evHeap) Push(x any)   { *h = append(*h, x.(*event)) }
func (h *evHeap) Pop() any {
	old := *h
	n := len(old)
	x := old[n-1]
	old[n-1] = nil
	*h = old[:n-1]
	return x
}

// ---- statistics measured per run ---------------------------------------------------------------

type Stats struct {
	Steps      uint64            `json:"steps"`
	SimNs      int64             `json:"simNs"`
	Faults     map[string]int    `json:"faults"` // fault kind -> times it actually fired
	Probes     map[string]int    `json:"probes"` // branch/condition probes
	Commits    int               `json:"commits"`
	MaxView    int               `json:"maxView"`
	Fingerprint uint64           `json:"fingerprint"`
	States     map[uint64]struct{} `json:"-"`
	Panics     int               `json:"panics"`
}

func newStats() *Stats {
	return &Stats{Faults: map[string]int{}, Probes: map[string]int{}, States: map[uint64]struct{}{}}
}

// ---- the world ---------------------------------------------------------------------------------

type World struct {
	plan   *Plan
	t0     time.Time
	evq    evHeap
	seq    uint64
	step   uint64
	nodes  []*Node // slots: primaries 0..n-1 in ID order, then twins
	byID   map[hotstuff.ID][]*Node
	keys   *keyring
	net    *netState
	reg    *registry
	orc    *oracle
	stats  *Stats
	viol   *Violation
	hooks  hooks
	ctx    context.Context
	cancel context.CancelFunc
	fp     uint64
	logw   io.Writer
	trace  []string
	cur    *Node // node whose code is currently executing on the driver
	curMsg *Msg  // message being injected (during deliver)
	want   map[string]bool // enabled oracles (property ids)
	fill   uint64 // highest filler command sequence number handed out
	clients *clientSet
	adv    *adversary
	ended  bool
	assembledDone bool
	popMD      map[hotstuff.ID]string // the proof of possession each replica is configured with (BLS)
	memo       map[[32]byte]memoVerdict // verification verdicts shared across replicas (Twins-style plans only)
	async      bool   // votes are verified in background goroutines, released one at a time by the scheduler
	driverGID  uint64
	pmu        sync.Mutex
	parkedNew  []*parkedG
	parkedAll  []*parkedG
	parkCtr    uint64
	healed bool // C05 plans: the synchronous phase has begun
	onHeal []func()
	stop   bool // a monitor has seen all it needs: end the run
	auditFetch bool // post-run audits: block fetches are served from the registry (every block available)
}

type hooks struct {
	afterStep  []func(nd *Node)
	onSign     []func(nd *Node, msg []byte, sig hotstuff.QuorumSignature)
	onVerify   []func(nd *Node, op string, sig hotstuff.QuorumSignature, msg []byte, batch map[hotstuff.ID][]byte, err error)
	onSend     []func(from *Node, to hotstuff.ID, m *Msg)
	onDeliver  []func(to *Node, m *Msg)
	onHandle   []func(nd *Node, ev any) // event about to be handled by nd's loop (prioritised observer)
	onCommit   []func(nd *Node, b *hotstuff.Block)
	onExec     []func(nd *Node, ev any)
	onViewChg  []func(nd *Node, ev hotstuff.ViewChangeEvent)
	onLeader   []func(nd *Node, v hotstuff.View, id hotstuff.ID)
	onRule     []func(nd *Node, kind string, view hotstuff.View, p *hotstuff.ProposeMsg, b *hotstuff.Block) func(vote bool, commit *hotstuff.Block)
	onFetch    []func(nd *Node, h hotstuff.Hash, b *hotstuff.Block, ok bool)
	onContribution []func(nd *Node, view hotstuff.View, sig hotstuff.QuorumSignature)
	atEnd      []func()
}

func (w *World) now() time.Duration { return time.Since(w.t0) }

func (w *World) at(t time.Duration, tag string, f func()) {
	w.seq++
	heap.Push(&w.evq, &event{at: t, seq: w.seq, tag: tag, run: f})
}
func (w *World) after(d time.Duration, tag string, f func()) { w.at(w.now()+d, tag, f) }

// logf appends one line to the symbolic event log. It never draws from a PRNG or reads the real clock.
func (w *World) logf(format string, a ...any) {
	line := fmt.Sprintf("%d %d ", w.step, int64(w.now())) + fmt.Sprintf(format, a...)
	h := fnv.New64a()
	var b [8]byte
	for i := 0; i < 8; i++ {
		b[i] = byte(w.fp >> (8 * i))
	}
	_, _ = h.Write(b[:])
	_, _ = h.Write([]byte(line))
	w.fp = h.Sum64()
	if w.logw != nil {
		_, _ = io.WriteString(w.logw, line+"\n")
	}
	if len(w.trace) >= 60 {
		copy(w.trace, w.trace[1:])
		w.trace = w.trace[:59]
	}
	w.trace = append(w.trace, line)
}

func (w *World) fault(kind string) { w.stats.Faults[kind]++ }
func (w *World) probe(name string) { w.stats.Probes[name]++ }

// violate records the first violation of an enabled oracle and stops the run.
func (w *World) violate(prop, class string, nd *Node, format string, a ...any) {
	if !w.want[prop] {
		w.probe("other-property-violation:" + class)
		return
	}
	if w.viol != nil {
		return
	}
	id := 0
	if nd != nil {
		id = int(nd.id)
	}
	w.viol = &Violation{Property: prop, Class: class, Step: w.step, AtNs: int64(w.now()), Node: id,
		Detail: fmt.Sprintf(format, a...), Trace: append([]string(nil), w.trace...)}
	w.logf("VIOLATION %s %s", class, w.viol.Detail)
}

// ---- the driver loop ---------------------------------------------------------------------------

func (w *World) runLoop() {
	for w.evq.Len() > 0 && w.viol == nil {
		ev := heap.Pop(&w.evq).(*event)
		if ev.at > time.Duration(w.plan.UntilMs)*time.Millisecond {
			break
		}
		if d := ev.at - w.now(); d > 0 {
			time.Sleep(d)
			synctest.Wait() // timers due at this instant have pushed their events
		}
		ev.run()
		if w.step > uint64(w.plan.MaxSteps) {
			w.probe("max-steps")
			break
		}
		if w.plan.MaxViews > 0 && w.stats.MaxView >= w.plan.MaxViews {
			break
		}
		if w.stop {
			break
		}
		if w.plan.Sync != nil && !w.healed && w.plan.PrefixViews > 0 && w.stats.MaxView >= w.plan.PrefixViews {
			w.heal()
		}
	}
	w.stats.Steps = w.step
	w.stats.SimNs = int64(w.now())
	w.stats.Fingerprint = w.fp
}

// scheduleProcess makes sure node nd will handle its next queued event.
func (w *World) scheduleProcess(nd *Node, d time.Duration) {
	if nd.procPending {
		return
	}
	nd.procPending = true
	w.after(d, "proc", func() { w.process(nd) })
}

func (w *World) procDelay(nd *Node) time.Duration {
	if w.plan.ProcUs == 0 {
		return 0
	}
	nd.procCtr++
	return time.Duration(mix(w.plan.Inner, 0x70726f63, uint64(nd.slot), nd.procCtr)%uint64(w.plan.ProcUs+1)) * time.Microsecond
}

// process lets nd handle exactly one event from its queue: one simulation step.
func (w *World) process(nd *Node) {
	nd.procPending = false
	if nd.crashed {
		return
	}
	if nd.pausedUntil > w.now() {
		nd.procPending = true
		w.at(nd.pausedUntil, "resume", func() { w.process(nd) })
		return
	}
	w.topUp(nd)
	handled := false
	nd.curEvent = nil
	w.guard(nd, "tick", func() { handled = nd.el.Tick(w.ctx) })
	if nd.crashed {
		return
	}
	if !handled {
		return
	}
	w.step++
	if w.kauri() {
		// Kauri starts a sleeping goroutine per disseminated proposal (go waitToAggregate); two of them started at
		// the same instant by one replica would wake together and race for the replica's queue. One nanosecond
		// per step keeps their wake-up instants, and hence their order, distinct.
		time.Sleep(time.Nanosecond)
		synctest.Wait()
	}
	if w.clients != nil {
		synctest.Wait() // let client goroutines that just got an outcome record it
	}
	if w.async {
		w.collectParked()
	}
	w.afterStep(nd)
	w.scheduleProcess(nd, w.procDelay(nd))
}

func (w *World) afterStep(nd *Node) {
	w.logf("STEP %s %s -> v=%d hqc=%s@%d htc=%d lock=%s cm=%s lv=%d", nd, w.evSym(nd.curEvent), nd.states.View(),
		w.reg.sym(nd.states.HighQC().BlockHash()), nd.states.HighQC().View(), nd.states.HighTC().View(),
		w.lockSym(nd), w.reg.sym(nd.states.CommittedBlock().Hash()), nd.voter.VerifLastVotedView())
	for _, f := range w.hooks.afterStep {
		f(nd)
	}
	if v := int(nd.states.View()); v > w.stats.MaxView && nd.honest {
		w.stats.MaxView = v
	}
}

// guard runs f as code of node nd; a panic there is what would kill a real replica process:
// it is recorded (C10) and the node counts as crashed from then on.
func (w *World) guard(nd *Node, what string, f func()) {
	prev := w.cur
	w.cur = nd
	defer func() {
		w.cur = prev
		if r := recover(); r != nil {
			stack := string(debug.Stack())
			if panicInHarness(stack) {
				panic(fmt.Sprintf("harness bug (panic in simulator code): %v\n%s", r, stack))
			}
			fn := innermostRepoFunc(stack)
			w.stats.Panics++
			w.logf("PANIC n%d %s in %s: %v", nd.id, what, fn, r)
			nd.crashed = true
			nd.panicked = true
			w.fault("panic-crash")
			cause := "message handling"
			w.violate("C10", "C10/panic@"+fn, nd, "replica %d panicked during %s (%s): %v", nd.id, what, cause, r)
		}
	}()
	f()
}

// panicInHarness reports whether the innermost non-runtime frame of the panicking stack is simulator code.
func panicInHarness(stack string) bool {
	lines := strings.Split(stack, "\n")
	seenPanic := false
	for _, l := range lines {
		l = strings.TrimSpace(l)
		if strings.HasPrefix(l, "panic(") {
			seenPanic = true
			continue
		}
		if !seenPanic || l == "" || strings.HasPrefix(l, "/") || strings.HasPrefix(l, "runtime.") || strings.HasPrefix(l, "internal/runtime") {
			continue
		}
		return strings.Contains(l, "zz_verifsim")
	}
	return false
}

func innermostRepoFunc(stack string) string {
	lines := strings.Split(stack, "\n")
	for _, l := range lines {
		l = strings.TrimSpace(l)
		if (strings.HasPrefix(l, "github.com/relab/hotstuff/") || strings.HasPrefix(l, "github.com/relab/hotstuff.")) && !strings.Contains(l, "zz_verifsim") {
			if i := strings.LastIndex(l, "("); i > 0 {
				l = l[:i]
			}
			return strings.TrimPrefix(strings.TrimPrefix(l, "github.com/relab/hotstuff/"), "github.com/relab/")
		}
	}
	return "unknown"
}

// mix is the counter-keyed hash behind every per-message choice: removing one fault while
// minimising a plan perturbs few later choices.
func mix(vals ...uint64) uint64 {
	x := uint64(0x9e3779b97f4a7c15)
	for _, v := range vals {
		x ^= v + 0x9e3779b97f4a7c15 + (x << 6) + (x >> 2)
		x ^= x >> 30
		x *= 0xbf58476d1ce4e5b9
		x ^= x >> 27
		x *= 0x94d049bb133111eb
		x ^= x >> 31
	}
	return x
}

func unit(x uint64) float64 { return float64(x>>11) / float64(1<<53) }

func (w *World) lockSym(nd *Node) string {
	if l := nd.rules.lock(); l != nil {
		return w.reg.sym(l.Hash())
	}
	return "-"
}

// evSym names an event symbolically: no hash bytes, no pointers.
func (w *World) evSym(ev any) string {
	switch e := ev.(type) {
	case nil:
		return "internal"
	case hotstuff.ProposeMsg:
		if e.Block == nil {
			return fmt.Sprintf("Propose(from=%d,nil)", e.ID)
		}
		bi := w.reg.add(e.Block, nil)
		return fmt.Sprintf("Propose(from=%d,%s,agg=%v)", e.ID, bi.sym, e.AggregateQC != nil)
	case hotstuff.VoteMsg:
		return fmt.Sprintf("Vote(from=%d,%s,def=%v)", e.ID, w.reg.sym(e.PartialCert.BlockHash()), e.Deferred)
	case hotstuff.TimeoutMsg:
		return fmt.Sprintf("Timeout(from=%d,v=%d,%s)", e.ID, e.View, w.siSym(e.SyncInfo))
	case hotstuff.NewViewMsg:
		return fmt.Sprintf("NewView(from=%d,%s)", e.ID, w.siSym(e.SyncInfo))
	case hotstuff.TimeoutEvent:
		return fmt.Sprintf("LocalTimeout(v=%d)", e.View)
	case hotstuff.CommitEvent:
		return fmt.Sprintf("Commit(%s)", w.reg.sym(e.Block.Hash()))
	case hotstuff.ViewChangeEvent:
		return fmt.Sprintf("ViewChange(v=%d,timeout=%v)", e.View, e.Timeout)
	}
	return fmt.Sprintf("%T", ev)
}

func (w *World) siSym(si hotstuff.SyncInfo) string {
	var sb strings.Builder
	if qc, ok := si.QC(); ok {
		fmt.Fprintf(&sb, "qc=%s@%d ", w.reg.sym(qc.BlockHash()), qc.View())
	}
	if tc, ok := si.TC(); ok {
		fmt.Fprintf(&sb, "tc=%d ", tc.View())
	}
	if agg, ok := si.AggQC(); ok {
		fmt.Fprintf(&sb, "agg=%d/%d ", agg.View(), len(agg.QCs()))
	}
	return strings.TrimSpace(sb.String())
}

// heal starts the synchronous phase of a C05 plan: from now on the designated quorum exchanges all
// its messages quickly and loses none.
func (w *World) heal() {
	if w.healed {
		return
	}
	w.healed = true
	w.logf("SYNC-PHASE quorum=%v", w.plan.Sync)
	for _, f := range w.onHeal {
		f()
	}
}

// ---- asynchronous vote verification under the scheduler -----------------------------------------------

type parkedG struct {
	nd       *Node
	ch       chan struct{}
	released bool
}

func goid() uint64 {
	var buf [64]byte
	b := buf[:runtime.Stack(buf[:], false)]
	b = bytes.TrimPrefix(b, []byte("goroutine "))
	if i := bytes.IndexByte(b, ' '); i > 0 {
		n, _ := strconv.ParseUint(string(b[:i]), 10, 64)
		return n
	}
	return 0
}

// parkIfBackground blocks a verification goroutine (anything that is not the driver) until the
// scheduler releases it; the driver decides, from the plan's seed, when and in which order.
func (w *World) parkIfBackground(nd *Node) {
	if goid() == w.driverGID {
		return
	}
	p := &parkedG{nd: nd, ch: make(chan struct{})}
	w.pmu.Lock()
	w.parkedNew = append(w.parkedNew, p)
	w.pmu.Unlock()
	<-p.ch
}

// collectParked schedules the release of the verification goroutines that have just parked.
func (w *World) collectParked() {
	synctest.Wait()
	w.pmu.Lock()
	news := w.parkedNew
	w.parkedNew = nil
	w.pmu.Unlock()
	for _, p := range news {
		p := p
		w.parkedAll = append(w.parkedAll, p)
		w.parkCtr++
		// verification takes anything from no time to a good part of a view
		r := mix(w.plan.Inner, 0x76726679, uint64(p.nd.slot), w.parkCtr)
		d := time.Duration(r%uint64(w.plan.ViewDur.Ms*300+1)) * time.Microsecond
		if r%5 == 0 {
			d = 0
		}
		w.probe("async-verification-parked")
		w.after(d, "verify-done", func() { w.releaseParked(p) })
	}
}

func (w *World) releaseParked(p *parkedG) {
	if p.released {
		return
	}
	p.released = true
	prev := w.cur
	w.cur = p.nd
	close(p.ch)
	synctest.Wait() // the goroutine runs to completion (or parks again) while the driver waits
	w.cur = prev
	w.logf("VERIFIED %s background verification finished", p.nd)
	if !w.ended {
		w.collectParked()
	}
	if !p.nd.crashed && !w.ended {
		w.scheduleProcess(p.nd, 0)
	}
}
