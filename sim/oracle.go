package zz_verifsim

import (
	"strings"
	"crypto/ecdsa"
	"crypto/ed25519"
	"crypto/sha256"
	"fmt"

	bls12 "github.com/kilic/bls12-381"
	"github.com/relab/hotstuff"
	"github.com/relab/hotstuff/security/crypto"
)

// ---- registry of every block that exists anywhere in the simulated world -------------------------

type blockInfo struct {
	b   *hotstuff.Block
	sym string
	idx int
	by  *Node // who first put the block into the world (nil: seen before anybody claimed it)
}

type registry struct {
	w      *World
	byHash map[hotstuff.Hash]*blockInfo
	order  []*blockInfo
}

func newRegistry(w *World) *registry {
	r := &registry{w: w, byHash: map[hotstuff.Hash]*blockInfo{}}
	r.byHash[hotstuff.GetGenesis().Hash()] = &blockInfo{b: hotstuff.GetGenesis(), sym: "G", idx: 0}
	r.order = append(r.order, r.byHash[hotstuff.GetGenesis().Hash()])
	return r
}

func (r *registry) add(b *hotstuff.Block, by *Node) *blockInfo {
	if b == nil {
		return nil
	}
	if bi, ok := r.byHash[b.Hash()]; ok {
		return bi
	}
	bi := &blockInfo{b: b, idx: len(r.order), by: by}
	bi.sym = fmt.Sprintf("B%d(v%d,p%d,par=%s,qc=%s@%d)", bi.idx, b.View(), b.Proposer(), r.sym(b.Parent()), r.sym(b.QuorumCert().BlockHash()), b.QuorumCert().View())
	r.byHash[b.Hash()] = bi
	r.order = append(r.order, bi)
	return bi
}

func (r *registry) get(h hotstuff.Hash) *hotstuff.Block {
	if bi, ok := r.byHash[h]; ok {
		return bi.b
	}
	return nil
}

func (r *registry) sym(h hotstuff.Hash) string {
	if bi, ok := r.byHash[h]; ok {
		if bi.idx == 0 {
			return "G"
		}
		return fmt.Sprintf("B%d", bi.idx)
	}
	if h == (hotstuff.Hash{}) {
		return "0"
	}
	return "?"
}

// ---- ground truth: who really signed what --------------------------------------------------------

type signRec struct {
	nd   *Node
	step uint64
	msg  []byte
	sig  hotstuff.QuorumSignature
}

// oracle decides, independently of the repository's verification code, whether a certificate is
// backed by a quorum of distinct configured replicas that each produced a valid signature over
// exactly the certified content. Individual signatures are checked with the standard library
// (Ed25519, ECDSA) or with a pairing computed here (BLS); the quorum size is computed from the
// property's own inequalities.
type oracle struct {
	w      *World
	q      int
	signed map[hotstuff.Hash]map[hotstuff.ID]bool // sha256(message) -> honest replicas that signed it
	signs  []signRec
	blsPub map[hotstuff.ID]*bls12.PointG1
	popOK  map[hotstuff.ID]bool // BLS: the configured key comes with a valid proof of possession (computed on first use)
	// what each honest replica attested in its own timeout message for a view: the QC, byte for byte
	attested map[[2]uint64]hotstuff.QuorumCert
}

func sameQC(a, b hotstuff.QuorumCert) bool {
	if a.View() != b.View() || a.BlockHash() != b.BlockHash() || (a.Signature() == nil) != (b.Signature() == nil) {
		return false
	}
	if a.Signature() == nil {
		return true
	}
	return sigIdentity(a.Signature()) == sigIdentity(b.Signature())
}

// sigIdentity spells out everything that tells two signature objects apart: the scheme's type, the signers, and the
// bytes of each part (for a multi-signature entry by entry: the same bytes divided differently are another object).
func sigIdentity(sig hotstuff.QuorumSignature) string {
	var sb strings.Builder
	fmt.Fprintf(&sb, "%T|%v|", sig, participantsOf(sig))
	switch s := sig.(type) {
	case crypto.Multi[*crypto.EDDSASignature]:
		for _, e := range s {
			fmt.Fprintf(&sb, "%d:%x;", e.Signer(), e.ToBytes())
		}
	case crypto.Multi[*crypto.ECDSASignature]:
		for _, e := range s {
			fmt.Fprintf(&sb, "%d:%x;", e.Signer(), e.ToBytes())
		}
	default:
		fmt.Fprintf(&sb, "%x", sig.ToBytes())
	}
	return sb.String()
}

var blsPopDomain = []byte("BLS_POP_BLS12381G2_XMD:SHA-256_SSWU_RO_POP_") // the standard proof-of-possession tag

// popValid checks a replica's configured proof of possession with a pairing of our own: e(pk, H_pop(pk)) = e(g1, pop).
// An aggregate that names a replica whose key is unproven proves nothing about anybody (rogue-key attack).
func (o *oracle) popValid(id hotstuff.ID) bool {
	if o.popOK == nil {
		o.popOK = map[hotstuff.ID]bool{}
		honestOK := 0
		for rid, pk := range o.blsPub {
			ok := false
			if pt, err := bls12.NewG2().FromCompressed([]byte(o.w.popMD[rid])); err == nil {
				ok = blsPairingCheck([]*bls12.PointG1{pk}, [][]byte{o.w.keys.pub[rid].(*crypto.BLS12PublicKey).ToBytes()}, blsPopDomain, pt)
			}
			o.popOK[rid] = ok
			if !ok {
				o.w.logf("ORACLE proof of possession of replica %d does not verify (len %d)", rid, len(o.w.popMD[rid]))
			}
			if ok {
				honestOK++
			}
		}
		if honestOK == 0 && len(o.blsPub) > 0 {
			panic("harness: no configured BLS key has a valid proof of possession under the standard tag")
		}
	}
	return o.popOK[id]
}

var blsDomain = []byte("BLS_SIG_BLS12381G2_XMD:SHA-256_SSWU_RO_POP_") // the standard ciphersuite tag

func newOracle(w *World) *oracle {
	o := &oracle{w: w, q: quorumOf(w.plan.N), signed: map[hotstuff.Hash]map[hotstuff.ID]bool{}}
	if w.plan.Crypto == crypto.NameBLS12 {
		o.blsPub = map[hotstuff.ID]*bls12.PointG1{}
		for id, pk := range w.keys.pub {
			p, err := bls12.NewG1().FromCompressed(pk.(*crypto.BLS12PublicKey).ToBytes())
			if err != nil {
				panic("harness: bls public key: " + err.Error())
			}
			o.blsPub[id] = p
		}
	}
	o.attested = map[[2]uint64]hotstuff.QuorumCert{}
	w.hooks.onSend = append(w.hooks.onSend, func(from *Node, _ hotstuff.ID, m *Msg) {
		if from == nil || !from.honest || from.byz != nil || m.forged || m.kind != "timeout" {
			return
		}
		if tm, ok := m.val.(hotstuff.TimeoutMsg); ok && tm.MsgSignature != nil && tm.ID == from.id {
			if qc, ok := tm.SyncInfo.QC(); ok {
				k := [2]uint64{uint64(tm.ID), uint64(tm.View)}
				if _, seen := o.attested[k]; !seen {
					o.attested[k] = qc
				}
			}
		}
	})
	w.hooks.onSign = append(w.hooks.onSign, func(nd *Node, msg []byte, sig hotstuff.QuorumSignature) {
		h := hotstuff.Hash(sha256.Sum256(msg))
		if o.signed[h] == nil {
			o.signed[h] = map[hotstuff.ID]bool{}
		}
		o.signed[h][nd.id] = true
		o.signs = append(o.signs, signRec{nd: nd, step: w.step, msg: append([]byte(nil), msg...), sig: sig})
	})
	return o
}

func (o *oracle) configured(id hotstuff.ID) bool { return int(id) >= 1 && int(id) <= o.w.plan.N }

// validSigners returns the distinct configured replicas for which sig contains a valid signature
// over msgOf(id). For BLS the aggregate either holds for all listed participants or for none.
func (o *oracle) validSigners(sig hotstuff.QuorumSignature, msgOf func(hotstuff.ID) []byte) map[hotstuff.ID]bool {
	out := map[hotstuff.ID]bool{}
	switch s := sig.(type) {
	case crypto.Multi[*crypto.EDDSASignature]:
		for _, e := range s {
			if e == nil || !o.configured(e.Signer()) {
				continue
			}
			m := msgOf(e.Signer())
			if m == nil {
				continue
			}
			if ed25519.Verify(o.w.keys.pub[e.Signer()].(ed25519.PublicKey), m, e.ToBytes()) {
				out[e.Signer()] = true
			}
		}
	case crypto.Multi[*crypto.ECDSASignature]:
		for _, e := range s {
			if e == nil || !o.configured(e.Signer()) {
				continue
			}
			m := msgOf(e.Signer())
			if m == nil {
				continue
			}
			h := sha256.Sum256(m)
			if ecdsa.VerifyASN1(o.w.keys.pub[e.Signer()].(*ecdsa.PublicKey), h[:], e.ToBytes()) {
				out[e.Signer()] = true
			}
		}
	case *crypto.BLS12AggregateSignature:
		if s == nil {
			return out
		}
		var ids []hotstuff.ID
		ok := true
		s.Participants().ForEach(func(id hotstuff.ID) {
			if !o.configured(id) || !o.popValid(id) {
				ok = false
			}
			ids = append(ids, id)
		})
		if !ok || len(ids) == 0 {
			return out
		}
		pt, err := bls12.NewG2().FromCompressed(s.ToBytes())
		if err != nil {
			return out
		}
		var pks []*bls12.PointG1
		var msgs [][]byte
		for _, id := range ids {
			m := msgOf(id)
			if m == nil {
				return out
			}
			pks = append(pks, o.blsPub[id])
			msgs = append(msgs, m)
		}
		if blsPairingCheck(pks, msgs, blsDomain, pt) {
			for _, id := range ids {
				out[id] = true
			}
		}
	}
	return out
}

// blsPairingCheck decides e(g1, sig) == prod_i e(pk_i, H(m_i)) with the pairing library the repository uses, in
// three independent ways, and accepts if any of them does: this version of kilic/bls12-381 gives a wrong answer
// for some inputs in one arrangement or another (observation O2: for one valid signature the multi-pair Miller
// loop with the inverse pair last fails; for one valid proof of possession the comparison of two separately
// computed pairings fails while both multi-pair arrangements succeed). All observed errors reject something
// valid; a forged signature would have to be accepted by one of three computations of a 381-bit equation.
func blsPairingCheck(pks []*bls12.PointG1, msgs [][]byte, domain []byte, sig *bls12.PointG2) bool {
	hash := func() []*bls12.PointG2 {
		var out []*bls12.PointG2
		for _, m := range msgs {
			hp, err := bls12.NewG2().HashToCurve(m, domain)
			if err != nil {
				return nil
			}
			out = append(out, hp)
		}
		return out
	}
	// (1) every pairing by an engine of its own, product taken in the target group
	if hps := hash(); hps != nil {
		gt := bls12.NewGT()
		var lhs *bls12.E
		for i := range pks {
			pk := *pks[i] // AddPair normalises its arguments in place
			r := bls12.NewEngine().AddPair(&pk, hps[i]).Result()
			if lhs == nil {
				lhs = r
			} else {
				prod := gt.New()
				gt.Mul(prod, lhs, r)
				lhs = prod
			}
		}
		one, s := bls12.G1One, *sig
		rhs := bls12.NewEngine().AddPair(&one, &s).Result()
		if lhs != nil && lhs.Equal(rhs) {
			return true
		}
	}
	// (2) one engine, the inverse pair first; (3) one engine, the inverse pair last
	for _, invFirst := range []bool{true, false} {
		hps := hash()
		if hps == nil {
			return false
		}
		eng := bls12.NewEngine()
		one, s := bls12.G1One, *sig
		if invFirst {
			eng.AddPairInv(&one, &s)
		}
		for i := range pks {
			pk := *pks[i]
			eng.AddPair(&pk, hps[i])
		}
		if !invFirst {
			eng.AddPairInv(&one, &s)
		}
		if eng.Result().IsOne() {
			return true
		}
	}
	return false
}

func sameMsg(m []byte) func(hotstuff.ID) []byte { return func(hotstuff.ID) []byte { return m } }

// qcBacked: the QC names a known block, claims that block's view, and carries valid signatures
// over the block from a quorum of distinct configured replicas. The genesis QC is view 0 by definition.
func (o *oracle) qcBacked(qc hotstuff.QuorumCert) (bool, string) {
	if qc.BlockHash() == hotstuff.GetGenesis().Hash() {
		if qc.View() != 0 {
			return false, fmt.Sprintf("genesis certificate relabelled to view %d", qc.View())
		}
		if qc.Signature() != nil {
			// nobody signs genesis: its certificate is the unsigned one, and anything that carries a signature there
			// is somebody's invention (D22), never an honestly assembled certificate
			return false, "genesis certificate carries a signature"
		}
		return true, ""
	}
	b := o.w.reg.get(qc.BlockHash())
	if b == nil {
		return false, "certified block does not exist"
	}
	if b.View() != qc.View() {
		return false, fmt.Sprintf("certificate claims view %d for a block of view %d", qc.View(), b.View())
	}
	if qc.Signature() == nil {
		return false, "no signature"
	}
	n := len(o.validSigners(qc.Signature(), sameMsg(b.ToBytes())))
	if n < o.q {
		return false, fmt.Sprintf("%d distinct valid signers < quorum %d", n, o.q)
	}
	return true, ""
}

func (o *oracle) tcBacked(tc hotstuff.TimeoutCert) (bool, string) {
	if tc.View() == 0 {
		if tc.Signature() != nil {
			// nobody times out of view 0: its certificate is the unsigned initial one (compare the genesis QC)
			return false, "certificate for view 0 carries a signature"
		}
		return true, ""
	}
	if tc.Signature() == nil {
		return false, "no signature"
	}
	n := len(o.validSigners(tc.Signature(), sameMsg(tc.View().ToBytes())))
	if n < o.q {
		return false, fmt.Sprintf("%d distinct valid signers of view %d < quorum %d", n, tc.View(), o.q)
	}
	return true, ""
}

// aggBacked: a quorum of distinct replicas each signed its own timeout message (id, view, its QC);
// returns the view of the highest backed QC among those attested.
func (o *oracle) aggBacked(agg hotstuff.AggregateQC) (ok bool, highView hotstuff.View, haveHigh bool, why string) {
	if agg.Sig() == nil {
		return false, 0, false, "no signature"
	}
	msgOf := func(id hotstuff.ID) []byte {
		qc, ok := agg.QCs()[id]
		if !ok {
			return nil
		}
		return hotstuff.TimeoutMsg{ID: id, View: agg.View(), SyncInfo: hotstuff.NewSyncInfoWith(qc)}.ToBytes()
	}
	vs := o.validSigners(agg.Sig(), msgOf)
	// a signer counts for the entry it attested, byte for byte: an aggregate that lists another QC for an honest
	// signer than that signer put into its timeout message for this view presents something nobody signed
	for id := 1; id <= o.w.plan.N; id++ {
		if !vs[hotstuff.ID(id)] {
			continue
		}
		if att, ok := o.attested[[2]uint64{uint64(id), uint64(agg.View())}]; ok {
			if qc, ok := agg.QCs()[hotstuff.ID(id)]; ok && !sameQC(att, qc) {
				delete(vs, hotstuff.ID(id))
				o.w.probe("c02-aggregate-entry-not-as-attested")
			}
		}
	}
	if len(vs) < o.q {
		return false, 0, false, fmt.Sprintf("%d distinct valid signers of their timeout message < quorum %d", len(vs), o.q)
	}
	for id := range vs {
		qc := agg.QCs()[id]
		if b, _ := o.qcBacked(qc); b {
			if !haveHigh || qc.View() > highView {
				highView, haveHigh = qc.View(), true
			}
		}
	}
	return true, highView, haveHigh, ""
}

func (o *oracle) honestSigned(id hotstuff.ID, msg []byte) bool {
	return o.signed[hotstuff.Hash(sha256.Sum256(msg))][id]
}
