package zz_verifsim

import (
	"github.com/relab/hotstuff/internal/proto/kauripb"
	bls12 "github.com/kilic/bls12-381"
	"math/big"
	"crypto/sha256"
	"crypto/ecdsa"
	"crypto/ed25519"
	"crypto/elliptic"
	"encoding/binary"
	"fmt"
	"strings"
	"time"

	"github.com/relab/hotstuff"
	"github.com/relab/hotstuff/core"
	"github.com/relab/hotstuff/core/eventloop"
	"github.com/relab/hotstuff/internal/proto/clientpb"
	"github.com/relab/hotstuff/internal/tree"
	"github.com/relab/hotstuff/metrics"
	"google.golang.org/protobuf/proto"
	"github.com/relab/hotstuff/protocol"
	"github.com/relab/hotstuff/protocol/comm"
	"github.com/relab/hotstuff/protocol/consensus"
	"github.com/relab/hotstuff/protocol/leaderrotation"
	"github.com/relab/hotstuff/protocol/rules"
	"github.com/relab/hotstuff/protocol/rules/byzantine"
	"github.com/relab/hotstuff/protocol/synchronizer"
	"github.com/relab/hotstuff/protocol/votingmachine"
	"github.com/relab/hotstuff/security/blockchain"
	"github.com/relab/hotstuff/security/cert"
	"github.com/relab/hotstuff/security/crypto"
	"github.com/relab/hotstuff/server"
)

// ---- deterministic keys ------------------------------------------------------------------------

type keyring struct {
	scheme string
	priv   map[hotstuff.ID]hotstuff.PrivateKey
	pub    map[hotstuff.ID]hotstuff.PublicKey
	// rogue-key configuration (BLS, C02): replica rogue registered the public key g1^x - pk(victim), which it has
	// no private key for, and publishes the victim's proof of possession as its own
	rogue, victim hotstuff.ID
	rogueX        *big.Int
}

const blsPopKey = "bls12-pop-bin" // the connection metadata entry that carries a replica's proof of possession

// makeRogue replaces r's registered public key by g1^x - pk(v).
func (k *keyring) makeRogue(r, v hotstuff.ID, x *big.Int) {
	g1 := bls12.NewG1()
	pv, err := g1.FromCompressed(k.pub[v].(*crypto.BLS12PublicKey).ToBytes())
	if err != nil {
		panic("harness: rogue key: " + err.Error())
	}
	gx := g1.New()
	g1.MulScalarBig(gx, g1.One(), x)
	res := g1.New()
	g1.Sub(res, gx, pv)
	pub := &crypto.BLS12PublicKey{}
	if err := pub.FromBytes(g1.ToCompressed(res)); err != nil {
		panic("harness: rogue key: " + err.Error())
	}
	k.pub[r] = pub
	k.rogue, k.victim, k.rogueX = r, v, x
}

func keyBytes(inner uint64, id int, n int) []byte {
	out := make([]byte, 0, n+8)
	for i := 0; len(out) < n; i++ {
		var b [8]byte
		binary.LittleEndian.PutUint64(b[:], mix(inner, 0x6b6579, uint64(id), uint64(i)))
		out = append(out, b[:]...)
	}
	return out[:n]
}

func newKeyring(scheme string, inner uint64, n int) *keyring {
	k := &keyring{scheme: scheme, priv: map[hotstuff.ID]hotstuff.PrivateKey{}, pub: map[hotstuff.ID]hotstuff.PublicKey{}}
	for i := 1; i <= n; i++ {
		id := hotstuff.ID(i)
		switch scheme {
		case crypto.NameEDDSA:
			pk := ed25519.NewKeyFromSeed(keyBytes(inner, i, 32))
			k.priv[id] = pk
		case crypto.NameECDSA:
			b := keyBytes(inner, i, 32)
			b[0] &= 0x7f
			b[31] |= 1
			pk, err := ecdsa.ParseRawPrivateKey(elliptic.P256(), b)
			if err != nil {
				panic(fmt.Sprintf("harness: ecdsa key: %v", err))
			}
			k.priv[id] = pk
		case crypto.NameBLS12:
			pk := &crypto.BLS12PrivateKey{}
			b := keyBytes(inner, i, 31)
			b[30] |= 1
			pk.FromBytes(b)
			k.priv[id] = pk
		default:
			panic("harness: unknown scheme " + scheme)
		}
		k.pub[id] = k.priv[id].Public()
	}
	return k
}

// ---- a replica: the real stack, assembled as replica.New / twins.newNode do ------------------------

type Node struct {
	w    *World
	id   hotstuff.ID
	slot int
	twin bool
	addr int // +id for the primary, -id for its twin

	cfg    *core.RuntimeConfig
	log    *simLogger
	el     *eventloop.EventLoop
	sender *simSender
	raw    crypto.Base // uncached base of the same scheme: the C11 shadow
	bc     *blockchain.Blockchain
	auth   *cert.Authority
	states *protocol.ViewStates
	rules  *ruleWrap
	leader *leaderWrap
	vm     *votingmachine.VotingMachine
	voter  *consensus.Voter
	prop   *consensus.Proposer
	commit *consensus.Committer
	sync   *synchronizer.Synchronizer
	cache  *clientpb.CommandCache
	cio    *server.ClientIO
	svc    *server.VerifService
	vd     *vdWrap

	byz     *ByzNd
	honest  bool
	crashed bool
	panicked bool
	pausedUntil time.Duration
	slowUntil   time.Duration
	slowExtra   time.Duration
	procPending bool
	procCtr     uint64
	skew        float64
	fillNext    uint64

	committed []*hotstuff.Block // observed CommitEvents, in order
	lastView  hotstuff.View
	blockSenders map[hotstuff.Hash]map[hotstuff.ID]bool // transport-level senders of each proposed block
	vcView    hotstuff.View // view partitions: the view the replica was last seen in, and since when
	vcSince   time.Duration
	curEvent  any // event being handled in the current step
	stepEvents []any
	drained    bool
	overflowed bool // its event queue overflowed: observed event sequences may have holes from then on
}

func (nd *Node) quiescent() bool { return nd.drained }

func (nd *Node) String() string {
	if nd.twin {
		return fmt.Sprintf("n%d'", nd.id)
	}
	return fmt.Sprintf("n%d", nd.id)
}

func (w *World) buildNodes() error {
	p := w.plan
	w.keys = newKeyring(p.Crypto, p.Inner, p.N)
	if p.knob("roguekey", 0) >= 1 && p.Crypto == crypto.NameBLS12 {
		var r, v hotstuff.ID
		for _, b := range p.Byz {
			if b.Kind == "script" && has(b.Acts, "roguekey") {
				r = hotstuff.ID(b.ID)
			}
		}
		for id := 1; id <= p.N && v == 0; id++ {
			byz := false
			for _, b := range p.Byz {
				byz = byz || b.ID == id
			}
			if !byz {
				v = hotstuff.ID(id)
			}
		}
		if r != 0 && v != 0 && p.knob("roguekey", 0) == 1 {
			x := new(big.Int).SetBytes(keyBytes(p.Inner, 4242, 31))
			w.keys.makeRogue(r, v, x)
		} else if r != 0 && v != 0 {
			// variant 2: the replica keeps its own working key pair but publishes a proof that is not a proof for it
			// (the victim's): everything it signs is a valid signature under a key that was never proven
			w.keys.rogue, w.keys.victim = r, v
		}
	}
	w.byID = map[hotstuff.ID][]*Node{}
	byz := map[int]*ByzNd{}
	for i := range p.Byz {
		byz[p.Byz[i].ID] = &p.Byz[i]
	}
	mk := func(id int, twin bool) *Node {
		nd := &Node{w: w, id: hotstuff.ID(id), slot: len(w.nodes), twin: twin, addr: id, skew: 1, honest: true}
		if twin {
			nd.addr = -id
		}
		if b := byz[id]; b != nil {
			nd.byz = b
			nd.honest = false
		}
		w.nodes = append(w.nodes, nd)
		w.byID[nd.id] = append(w.byID[nd.id], nd)
		return nd
	}
	for id := 1; id <= p.N; id++ {
		mk(id, false)
	}
	for id := 1; id <= p.N; id++ {
		if b := byz[id]; b != nil && b.Kind == "twin" {
			mk(id, true)
		}
	}
	for _, s := range p.Skew {
		if s.Node >= 1 && s.Node <= p.N {
			w.nodes[s.Node-1].skew = s.Factor
		}
	}
	// phase 1: configs and crypto bases (BLS publishes its proof of possession in the config metadata)
	for _, nd := range w.nodes {
		opts := []core.RuntimeOption{core.WithCache(uint(p.Cache)), core.WithSharedRandomSeed(int64(p.Inner % 1000003))}
		if p.SyncVerify {
			opts = append(opts, core.WithSyncVerification())
		}
		if p.Ruleset == rules.NameFastHotStuff || p.knob("aggqc", 0) == 1 {
			opts = append(opts, core.WithAggregateQC())
		}
		if w.kauri() {
			tr := tree.NewSimple(nd.id, p.knob("bf", 2), w.treePositions())
			tr.SetTreeHeightWaitTime(time.Duration(p.ViewDur.Ms) * time.Millisecond / 8)
			opts = append(opts, core.WithKauriTree(tr))
		}
		nd.cfg = core.NewRuntimeConfig(nd.id, w.keys.priv[nd.id], opts...)
		nd.log = &simLogger{nd: nd}
		nd.el = eventloop.New(nd.log, uint(p.Queue))
	}
	bases := make([]crypto.Base, len(w.nodes))
	for i, nd := range w.nodes {
		b, err := crypto.New(nd.cfg, p.Crypto)
		if err != nil {
			return err
		}
		bases[i] = b
		if nd.raw, err = crypto.New(nd.cfg, p.Crypto); err != nil {
			return err
		}
	}
	w.popMD = map[hotstuff.ID]string{}
	for _, nd := range w.nodes {
		for id := 1; id <= p.N; id++ {
			src := w.nodes[id-1]
			md := map[string]string{}
			for k, v := range src.cfg.ConnectionMetadata() {
				md[k] = v
			}
			if w.keys.rogue != 0 && hotstuff.ID(id) == w.keys.rogue {
				md[blsPopKey] = w.nodes[w.keys.victim-1].cfg.ConnectionMetadata()[blsPopKey]
			}
			w.popMD[hotstuff.ID(id)] = md[blsPopKey]
			nd.cfg.AddReplica(&hotstuff.ReplicaInfo{ID: hotstuff.ID(id), PubKey: w.keys.pub[hotstuff.ID(id)], Metadata: md})
		}
	}
	// phase 2: the protocol stack
	for i, nd := range w.nodes {
		if err := nd.build(bases[i]); err != nil {
			return err
		}
	}
	return nil
}

func (nd *Node) build(base crypto.Base) error {
	w, p := nd.w, nd.w.plan
	nd.sender = &simSender{w: w, nd: nd}
	nd.bc = blockchain.New(nd.el, nd.log, nd.sender)
	nd.auth = cert.NewAuthority(nd.cfg, nd.bc, &monBase{inner: base, nd: nd, layer: "inner"})
	nd.auth.Base = &monBase{inner: nd.auth.Base, nd: nd, layer: "outer"}

	inner, err := rules.New(nd.log, nd.cfg, nd.bc, p.Ruleset)
	if err != nil {
		return err
	}
	var rs consensus.Ruleset = inner
	if nd.byz != nil && nd.byz.Kind == "script" {
		for _, a := range nd.byz.Acts {
			switch a {
			case "staleqc":
				rs = byzantine.NewFork(nd.cfg, nd.bc, rs)
			case "inflate":
				rs = byzantine.NewIncreaseView(nd.cfg, rs)
			case "silent":
				rs = byzantine.NewSilentProposer(rs)
			}
		}
	}
	nd.rules = &ruleWrap{Ruleset: rs, base: inner, nd: nd}
	nd.states, err = protocol.NewViewStates(nd.bc, nd.auth)
	if err != nil {
		return err
	}
	nd.commit = consensus.NewCommitter(nd.el, nd.log, nd.bc, nd.states, nd.rules)

	var lr leaderrotation.LeaderRotation
	leaderName := p.Leader
	if w.kauri() {
		leaderName = leaderrotation.NameTree
	}
	switch leaderName {
	case "scripted":
		lr = &scriptLeader{script: p.Script, prefix: p.PrefixScript, n: p.N}
	default:
		lr, err = leaderrotation.New(nd.log, nd.cfg, nd.bc, nd.states, leaderName, nd.rules.ChainLength())
		if err != nil {
			return err
		}
	}
	nd.leader = &leaderWrap{inner: lr, nd: nd}
	var clique comm.Communication
	if w.kauri() {
		clique = comm.NewKauri(nd.log, nd.el, nd.cfg, nd.bc, nd.auth, nd.sender)
	} else {
		nd.vm = votingmachine.New(nd.log, nd.el, nd.cfg, nd.bc, nd.auth, nd.states)
		clique = comm.NewClique(nd.cfg, nd.vm, nd.leader, nd.sender)
	}
	nd.voter = consensus.NewVoter(nd.cfg, nd.leader, nd.rules, clique, nd.auth, nd.commit)
	nd.cache = clientpb.NewCommandCache(uint32(p.Batch))
	nd.prop = consensus.NewProposer(nd.el, nd.cfg, nd.bc, nd.states, nd.rules, clique, nd.voter, nd.cache, nd.commit)

	var vd synchronizer.ViewDuration
	if p.ViewDur.Kind == "dynamic" {
		vd = synchronizer.NewDynamicDuration(uint32(p.knob("vdSamples", 10)), time.Duration(p.ViewDur.Ms)*time.Millisecond,
			time.Duration(p.ViewDur.MaxMs)*time.Millisecond, float32(p.ViewDur.Mul))
	} else {
		vd = synchronizer.NewFixedDuration(time.Duration(p.ViewDur.Ms) * time.Millisecond)
	}
	nd.vd = &vdWrap{inner: vd, nd: nd}

	// observers first, so that they see each event before the protocol handlers (prioritised)
	nd.observe()
	nd.cio = server.NewClientIO(nd.el, nd.log, nd.cache)
	nd.sync = synchronizer.New(nd.el, nd.log, nd.cfg, nd.auth, nd.leader, nd.vd,
		synchronizer.NewTimeoutRuler(nd.cfg, nd.auth), nd.prop, nd.voter, nd.states, nd.sender)
	if p.knob("metrics", 0) == 1 {
		// the replica-side measurements of the experiment framework: more handlers for the same events
		if err := metrics.Enable(nd.el, nd.log, nullMetrics{}, nd.id, time.Hour, metrics.NameThroughput, metrics.NameConsensusLatency, metrics.NameViewTimeouts); err != nil {
			return err
		}
	}
	var locations []string
	if p.knob("latmatrix", 0) == 1 {
		// latency emulation switched on, every replica in one place (zero delay: only the bookkeeping runs)
		for i := 0; i < p.N; i++ {
			locations = append(locations, "Oslo")
		}
	}
	nd.svc = server.VerifNewService(nd.el, nd.log, nd.cfg, nd.bc, locations)
	nd.lastView = nd.states.View()
	return nil
}

func (nd *Node) observe() {
	w := nd.w
	pri := eventloop.Prioritize()
	seen := func(ev any) {
		nd.curEvent = ev
		for _, f := range w.hooks.onHandle {
			f(nd, ev)
		}
	}
	eventloop.Register(nd.el, func(e hotstuff.ProposeMsg) { seen(e) }, pri)
	// who really handed this block to the replica: recorded while the transport injects the message (run inside
	// AddEvent), from the transport's own knowledge of the sending connection, not from any field of the message
	eventloop.Register(nd.el, func(e hotstuff.ProposeMsg) {
		if m := w.curMsg; m != nil && m.to == nd && m.kind == "propose" && e.Block != nil {
			if nd.blockSenders == nil {
				nd.blockSenders = map[hotstuff.Hash]map[hotstuff.ID]bool{}
			}
			h := e.Block.Hash()
			if nd.blockSenders[h] == nil {
				nd.blockSenders[h] = map[hotstuff.ID]bool{}
			}
			nd.blockSenders[h][m.fromID] = true
		}
	}, pri, eventloop.UnsafeRunInAddEvent())
	eventloop.Register(nd.el, func(e hotstuff.VoteMsg) { seen(e) }, pri)
	if w.kauri() {
		eventloop.Register(nd.el, func(e *kauripb.Contribution) { seen(e) }, pri)
		eventloop.Register(nd.el, func(e comm.WaitTimerExpiredEvent) { seen(e) }, pri)
	}
	eventloop.Register(nd.el, func(e hotstuff.TimeoutMsg) { seen(e) }, pri)
	eventloop.Register(nd.el, func(e hotstuff.NewViewMsg) { seen(e) }, pri)
	eventloop.Register(nd.el, func(e hotstuff.TimeoutEvent) { seen(e) }, pri)
	eventloop.Register(nd.el, func(e hotstuff.CommitEvent) {
		seen(e)
		nd.committed = append(nd.committed, e.Block)
		w.stats.Commits++
		for _, f := range w.hooks.onCommit {
			f(nd, e.Block)
		}
	}, pri)
	eventloop.Register(nd.el, func(e hotstuff.ViewChangeEvent) {
		seen(e)
		for _, f := range w.hooks.onViewChg {
			f(nd, e)
		}
	}, pri)
	eventloop.Register(nd.el, func(e clientpb.ExecuteEvent) {
		seen(e)
		for _, f := range w.hooks.onExec {
			f(nd, e)
		}
	}, pri)
	eventloop.Register(nd.el, func(e clientpb.AbortEvent) {
		seen(e)
		for _, f := range w.hooks.onExec {
			f(nd, e)
		}
	}, pri)
}

// nullMetrics discards measurements.
type nullMetrics struct{}

func (nullMetrics) Log(proto.Message) {}
func (nullMetrics) Close() error      { return nil }

// ---- seam wrappers -----------------------------------------------------------------------------

// monBase sits on the crypto seam. "outer" is what cert.Authority calls (above the cache),
// "inner" is below the cache (what actually reaches the signature scheme).
type monBase struct {
	inner crypto.Base
	nd    *Node
	layer string
}

func (m *monBase) Sign(message []byte) (hotstuff.QuorumSignature, error) {
	sig, err := m.inner.Sign(message)
	if m.layer == "outer" && err == nil {
		for _, f := range m.nd.w.hooks.onSign {
			f(m.nd, message, sig)
		}
	}
	return sig, err
}

func (m *monBase) Combine(sigs ...hotstuff.QuorumSignature) (hotstuff.QuorumSignature, error) {
	return m.inner.Combine(sigs...)
}

func (m *monBase) Verify(sig hotstuff.QuorumSignature, message []byte) error {
	if m.layer == "outer" && m.nd.w.async {
		m.nd.w.parkIfBackground(m.nd)
	}
	if m.layer == "inner" && m.nd.w.async && m.nd.w.plan.knob("parkInner", 0) == 1 {
		// a second seam below the cache: the verification is "in flight" (the cache has been consulted and
		// missed) while other verifications of the same replica run
		m.nd.w.probe("async-verification-parked-below-cache")
		m.nd.w.parkIfBackground(m.nd)
	}
	var err error
	if m.layer == "inner" && m.nd.w.memo != nil && sig != nil {
		// Twins-style plans: signature verification is a pure function of (scheme, keys, signers, signature bytes,
		// message) and every replica verifies the same certificates; the real verification runs once per distinct
		// input of the run and its verdict is shared. Nothing is stubbed.
		k := memoKey(sig, message)
		if e, ok := m.nd.w.memo[k]; ok {
			err = e.err
			m.nd.w.probe("verify-memo-hit")
		} else {
			err = m.inner.Verify(sig, message)
			m.nd.w.memo[k] = memoVerdict{err}
		}
	} else {
		err = m.inner.Verify(sig, message)
	}
	if m.layer == "outer" {
		for _, f := range m.nd.w.hooks.onVerify {
			f(m.nd, "verify", sig, message, nil, err)
		}
	} else {
		m.nd.w.probe("cache-miss-verify")
	}
	return err
}

func (m *monBase) BatchVerify(sig hotstuff.QuorumSignature, batch map[hotstuff.ID][]byte) error {
	err := m.inner.BatchVerify(sig, batch)
	if m.layer == "outer" {
		for _, f := range m.nd.w.hooks.onVerify {
			f(m.nd, "batchverify", sig, nil, batch, err)
		}
	} else {
		m.nd.w.probe("cache-miss-batchverify")
	}
	return err
}

type memoVerdict struct{ err error }

func memoKey(sig hotstuff.QuorumSignature, message []byte) [32]byte {
	h := sha256.New()
	sig.Participants().ForEach(func(id hotstuff.ID) { _, _ = h.Write(id.ToBytes()) })
	_, _ = h.Write([]byte{0xff})
	b := sig.ToBytes()
	_, _ = h.Write(hotstuff.View(len(b)).ToBytes())
	_, _ = h.Write(b)
	_, _ = h.Write(message)
	var k [32]byte
	copy(k[:], h.Sum(nil))
	return k
}

// vdWrap wraps the real ViewDuration: it learns each armed timeout (to schedule a driver wake-up),
// applies per-node clock skew and the "timer fires early" fault.
type vdWrap struct {
	inner synchronizer.ViewDuration
	nd    *Node
	ctr   uint64
}

func (v *vdWrap) Duration() time.Duration {
	w, nd := v.nd.w, v.nd
	d := v.inner.Duration()
	if !w.syncPhaseFor(nd) {
		if nd.skew != 1 {
			d = time.Duration(float64(d) * nd.skew)
			w.fault("skewed-timer")
		}
		if w.plan.EarlyTimer > 0 {
			v.ctr++
			if unit(mix(w.plan.Inner, 0x65746d72, uint64(nd.slot), v.ctr)) < w.plan.EarlyTimer {
				d = d / 20
				w.fault("early-timer")
			}
		}
	}
	if d < time.Microsecond {
		d = time.Microsecond
	}
	d += time.Duration(nd.slot+1) * time.Nanosecond // no two replicas' timers share an instant
	w.after(d, "timer", func() { w.scheduleProcess(nd, 0) })
	return d
}
func (v *vdWrap) ViewStarted()   { v.inner.ViewStarted() }
func (v *vdWrap) ViewSucceeded() { v.inner.ViewSucceeded() }
func (v *vdWrap) ViewTimeout()   { v.inner.ViewTimeout() }

type leaderWrap struct {
	inner leaderrotation.LeaderRotation
	nd    *Node
}

func (l *leaderWrap) GetLeader(v hotstuff.View) hotstuff.ID {
	id := l.guarded(v)
	for _, f := range l.nd.w.hooks.onLeader {
		f(l.nd, v, id)
	}
	return id
}

type scriptLeader struct {
	script []int
	prefix []int
	n      int
}

func (s *scriptLeader) GetLeader(v hotstuff.View) hotstuff.ID {
	if v >= 1 && int(v) <= len(s.prefix) {
		return hotstuff.ID(s.prefix[v-1])
	}
	if len(s.script) == 0 {
		return hotstuff.ID(uint64(v)%uint64(s.n) + 1)
	}
	return hotstuff.ID(s.script[uint64(v)%uint64(len(s.script))])
}

type ruleWrap struct {
	consensus.Ruleset
	base consensus.Ruleset // the unwrapped repo ruleset (for the lock accessor)
	nd   *Node
}

func (r *ruleWrap) VoteRule(view hotstuff.View, p hotstuff.ProposeMsg) bool {
	// observers look at the store before the rule runs (the rule may fetch blocks) and get the verdict afterwards
	var after []func(vote bool, commit *hotstuff.Block)
	for _, f := range r.nd.w.hooks.onRule {
		after = append(after, f(r.nd, "vote", view, &p, p.Block))
	}
	ok := r.Ruleset.VoteRule(view, p)
	for _, f := range after {
		if f != nil {
			f(ok, nil)
		}
	}
	return ok
}

func (r *ruleWrap) CommitRule(b *hotstuff.Block) *hotstuff.Block {
	var after []func(vote bool, commit *hotstuff.Block)
	for _, f := range r.nd.w.hooks.onRule {
		after = append(after, f(r.nd, "commit", 0, nil, b))
	}
	c := r.Ruleset.CommitRule(b)
	for _, f := range after {
		if f != nil {
			f(false, c)
		}
	}
	return c
}

func (r *ruleWrap) lock() *hotstuff.Block {
	switch x := r.base.(type) {
	case *rules.ChainedHotStuff:
		return x.VerifLock()
	case *rules.SimpleHotStuff:
		return x.VerifLock()
	}
	return nil
}

// simLogger is silent; it keeps the few warnings the oracles use as observations.
type simLogger struct {
	nd    *Node
	warns []string
}

func (l *simLogger) keep(s string) {
	if len(l.warns) < 256 {
		l.warns = append(l.warns, s)
	}
}
func (l *simLogger) DPanic(args ...any)                  {}
func (l *simLogger) DPanicf(t string, args ...any)       {}
func (l *simLogger) Debug(args ...any)                   {}
func (l *simLogger) Debugf(t string, args ...any)        {}
func (l *simLogger) Error(args ...any)                   { l.nd.w.probe("log-error") }
func (l *simLogger) Errorf(t string, args ...any)        { l.nd.w.probe("log-error") }
func (l *simLogger) Fatal(args ...any)                   { panic(fmt.Sprint(args...)) }
func (l *simLogger) Fatalf(t string, args ...any)        { panic(fmt.Sprintf(t, args...)) }
func (l *simLogger) Info(args ...any)                    {}
func (l *simLogger) Infof(t string, args ...any)         {}
func (l *simLogger) Panic(args ...any)                   { panic(fmt.Sprint(args...)) }
func (l *simLogger) Panicf(t string, args ...any)        { panic(fmt.Sprintf(t, args...)) }
func (l *simLogger) Warn(args ...any)                    { l.nd.w.probe("log-warn") }
func (l *simLogger) Warnf(t string, args ...any) {
	l.nd.w.probe("log-warn")
	if strings.HasPrefix(t, "event queue is full") {
		l.nd.overflowed = true
		l.nd.w.fault("queue-overflow")
	}
}

// ---- Kauri mode: tree dissemination and aggregation ---------------------------------------------------

func (w *World) kauri() bool { return w.plan.knob("kauri", 0) == 1 }

// treePositions: the plan's assignment of replicas to tree positions (a seeded permutation).
func (w *World) treePositions() []hotstuff.ID {
	n := w.plan.N
	ids := make([]hotstuff.ID, n)
	for i := range ids {
		ids[i] = hotstuff.ID(i + 1)
	}
	for i := n - 1; i > 0; i-- {
		j := int(mix(w.plan.Inner, 0x74726565, uint64(i)) % uint64(i+1))
		ids[i], ids[j] = ids[j], ids[i]
	}
	return ids
}
