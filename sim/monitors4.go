package zz_verifsim

import (
	"fmt"
	"time"

	"github.com/relab/hotstuff"
	"github.com/relab/hotstuff/core"
	"github.com/relab/hotstuff/core/eventloop"
	"github.com/relab/hotstuff/protocol"
	"github.com/relab/hotstuff/protocol/leaderrotation"
	"github.com/relab/hotstuff/security/blockchain"
	"github.com/relab/hotstuff/security/cert"
	"github.com/relab/hotstuff/security/crypto"
)

// ---- C05: progress resumes once a quorum is synchronous -------------------------------------------

func monC05(w *World) {
	p := w.plan
	if p.Sync == nil {
		return
	}
	L := 3
	if p.Ruleset == "fasthotstuff" {
		L = 2
	}
	tview := time.Duration(p.ViewDur.Ms) * time.Millisecond
	heal := time.Duration(p.HealAtMs) * time.Millisecond
	var members []*Node
	for _, id := range p.Sync {
		members = append(members, w.primary(id))
	}
	faultFree := p.HealAtMs == 0 && len(p.Faults) == 0 && len(p.Sync) == p.N
	lastCommit := map[*Node]time.Duration{}
	commitsAfter := map[*Node]int{}
	var deadline time.Duration
	gap := hotstuff.View(0)
	armed := false
	arm := func() {
		armed = true
		lo, hi := hotstuff.View(1<<62), hotstuff.View(0)
		for _, nd := range members {
			v := nd.states.View()
			if v < lo {
				lo = v
			}
			if v > hi {
				hi = v
			}
		}
		gap = hi - lo
		// views still scripted to leaders outside the quorum must first pass (by timeout)
		if rest := hotstuff.View(len(p.PrefixScript)); rest > lo {
			gap += rest - lo
			w.probe("c05-prefix-leaders-after-heal")
		}
		// generous and stated, not tuned: resynchronise (one period per view of spread, plus slack), then
		// a small multiple of the commit-chain length
		deadline = w.now() + time.Duration(int(gap)+12+4*L)*tview
		w.logf("C05 armed: gap=%d deadline=%dms", gap, deadline/time.Millisecond)
		if gap > 1 {
			w.probe("c05-view-gap-at-heal")
		}
		if gap > 10 {
			w.probe("c05-view-gap-over-10")
		}
		// the run must last until the deadline, and need not last longer
		end := deadline + tview
		w.plan.UntilMs = int(end/time.Millisecond) + 1
		w.at(deadline, "c05-deadline", func() {
			for _, nd := range members {
				if commitsAfter[nd] == 0 {
					w.violate("C05", "C05/"+p.Ruleset+"/commit", nd,
						"%s committed nothing in the %d view periods after a quorum %v became synchronous (view spread at heal %d, commit chain %d, leaders in the quorum, commands available)",
						nd, int(gap)+12+4*L, p.Sync, gap, L)
					return
				}
			}
			w.probe("c05-all-committed-by-deadline")
		})
	}
	w.onHeal = append(w.onHeal, arm)
	_ = heal
	w.hooks.onCommit = append(w.hooks.onCommit, func(nd *Node, b *hotstuff.Block) {
		if armed && w.now() <= deadline {
			for _, m := range members {
				if m == nd {
					commitsAfter[nd]++
					lastCommit[nd] = w.now()
				}
			}
			if !faultFree {
				// every member has committed again (twice over): nothing more to learn from this run
				all := true
				for _, m := range members {
					if commitsAfter[m] < 2 {
						all = false
					}
				}
				if all {
					w.probe("c05-all-committed-by-deadline")
					w.stop = true
				}
			}
		}
	})
	if faultFree {
		w.probe("c05-fault-free-run")
		w.hooks.onViewChg = append(w.hooks.onViewChg, func(nd *Node, ev hotstuff.ViewChangeEvent) {
			if ev.Timeout {
				w.violate("C05", "C05/"+p.Ruleset+"/fault-free", nd, "%s entered view %d by timeout in a fault-free synchronous run", nd, ev.View)
			}
		})
		w.hooks.afterStep = append(w.hooks.afterStep, func(nd *Node) {
			ev, ok := nd.curEvent.(hotstuff.ProposeMsg)
			if !ok || ev.Block == nil {
				return
			}
			v := ev.Block.View()
			if int(v) <= L+1 || nd.voter.VerifLastVotedView() != v {
				return // only once the proposal has been fully handled (voted for)
			}
			// after handling the proposal of view v, the block of view v-L is committed: not more, not less
			if cv := nd.states.CommittedBlock().View(); cv != v-hotstuff.View(L) {
				w.violate("C05", "C05/"+p.Ruleset+"/fault-free", nd, "%s handled the proposal of view %d in a fault-free synchronous run and its last committed block is of view %d, not %d (commit chain %d)",
					nd, v, cv, v-hotstuff.View(L), L)
			}
			w.probe("c05-trailing-checked")
		})
	}
}

// ---- C16: all replicas agree on a valid leader -------------------------------------------------------

type leaderRec struct {
	nd   *Node
	view hotstuff.View
	head *hotstuff.Block
	ans  hotstuff.ID
}

func monC16(w *World) {
	p := w.plan
	scheme := p.Leader
	if scheme == "" {
		scheme = "round-robin"
	}
	var recs []leaderRec
	type headRec struct {
		nd      *Node
		signers string
	}
	headSigners := map[hotstuff.Hash]headRec{}
	byView := map[hotstuff.View]hotstuff.ID{}
	perNode := map[*Node][]leaderRec{}
	f := 0
	for 3*(f+1) < p.N {
		f++
	}
	chainLen := 3
	if p.Ruleset == "fasthotstuff" {
		chainLen = 2
	}
	w.hooks.onLeader = append(w.hooks.onLeader, func(nd *Node, v hotstuff.View, id hotstuff.ID) {
		if !nd.honest || w.viol != nil {
			return
		}
		head := nd.states.CommittedBlock()
		rec := leaderRec{nd: nd, view: v, head: head, ans: id}
		w.probe("c16-query")
		if scheme == "carousel" || scheme == "reputation" {
			// the history-based schemes read the signers of the certificate embedded in the committed head: replicas
			// that "observed the same committed head" must hold the same certificate in it
			signers := fmt.Sprint(participantsOf(head.QuorumCert().Signature()))
			if prev, ok := headSigners[head.Hash()]; ok && prev.signers != signers && prev.nd != nd {
				w.violate("C16", "C16/"+scheme+"/head-differs", nd, "%s and %s both have %s as committed head, but the certificate embedded in it names %s at one and %s at the other: the rotation is a function of it",
					prev.nd, nd, w.reg.sym(head.Hash()), prev.signers, signers)
				return
			} else if !ok {
				headSigners[head.Hash()] = headRec{nd, signers}
			}
		}
		stateless := scheme == "round-robin" || scheme == "fixed" || scheme == "tree-leader"
		if stateless || scheme == "carousel" {
			if int(id) < 1 || int(id) > p.N {
				w.violate("C16", "C16/"+scheme+"/unknown", nd, "%s: leader of view %d is %d, not a configured replica", nd, v, id)
				return
			}
		}
		if stateless {
			if prev, ok := byView[v]; ok && prev != id {
				w.violate("C16", "C16/"+scheme+"/disagree", nd, "%s names %d leader of view %d, another honest replica named %d", nd, id, v, prev)
				return
			}
			byView[v] = id
			if scheme == "round-robin" && len(recs) < 4000 {
				// every replica exactly one turn in any n consecutive views
				for _, r := range recs[max(0, len(recs)-64):] {
					d := int64(v) - int64(r.view)
					if d < 0 {
						d = -d
					}
					same := r.ans == id
					if (d%int64(p.N) == 0) != same {
						w.violate("C16", "C16/round-robin/turns", nd, "leaders of views %d and %d are %d and %d: not one turn each per %d consecutive views", r.view, v, r.ans, id, p.N)
						return
					}
				}
			}
		}
		if scheme == "carousel" && head.QuorumCert().Signature() != nil && head.View() == v-hotstuff.View(chainLen) {
			// active carousel: a signer of the head's certificate that proposed none of the last f committed blocks
			w.probe("c16-carousel-active")
			if !head.QuorumCert().Signature().Participants().Contains(id) {
				w.violate("C16", "C16/carousel/carousel-rule", nd, "%s: leader %d of view %d did not sign the certificate in the latest committed block", nd, id, v)
				return
			}
			b := head
			for i := 0; i < f && b != nil && b.View() > 0; i++ {
				if b.Proposer() == id {
					w.violate("C16", "C16/carousel/carousel-rule", nd, "%s: leader %d of view %d proposed one of the last %d committed blocks", nd, id, v, f)
					return
				}
				b = w.reg.get(b.Parent())
			}
		}
		recs = append(recs, rec)
		perNode[nd] = append(perNode[nd], rec)
	})
	if scheme != "carousel" && scheme != "reputation" {
		return
	}
	// history-based schemes: a fresh instance fed one replica's (committed head, query) sequence
	// reproduces that replica's answers — on another replica's identity.
	w.hooks.atEnd = append(w.hooks.atEnd, func() {
		if w.viol != nil {
			return
		}
		w.auditFetch = true
		for _, nd := range w.nodes {
			seq := perNode[nd]
			if !nd.honest || len(seq) == 0 {
				continue
			}
			other := w.nodes[(nd.slot+1)%w.plan.N]
			opts := []core.RuntimeOption{core.WithSharedRandomSeed(nd.cfg.SharedRandomSeed())}
			cfg := core.NewRuntimeConfig(other.id, w.keys.priv[other.id], opts...)
			for id := 1; id <= p.N; id++ {
				ri, _ := nd.cfg.ReplicaInfo(hotstuff.ID(id))
				cp := *ri
				cfg.AddReplica(&cp)
			}
			lg := &simLogger{nd: nd}
			el := eventloop.New(lg, 16)
			bc := blockchain.New(el, lg, regSender{w})
			base, err := crypto.New(cfg, p.Crypto)
			if err != nil {
				return
			}
			vs, err := protocol.NewViewStates(bc, cert.NewAuthority(cfg, bc, base))
			if err != nil {
				return
			}
			fresh, err := leaderrotation.New(lg, cfg, bc, vs, scheme, chainLen)
			if err != nil {
				return
			}
			for i, r := range seq {
				vs.UpdateCommittedBlock(r.head)
				var got hotstuff.ID
				func() {
					defer func() {
						if x := recover(); x != nil {
							w.violate("C16", "C16/"+scheme+"/panic", nd, "GetLeader(%d) panicked on replay: %v", r.view, x)
						}
					}()
					got = fresh.GetLeader(r.view)
				}()
				w.probe("c16-replayed")
				if w.viol != nil {
					return
				}
				if got != r.ans {
					w.violate("C16", "C16/"+scheme+"/not-function", nd,
						"%s answered %d for view %d (query %d, committed head %s); a fresh instance fed the same committed heads and queries answers %d",
						nd, r.ans, r.view, i, w.reg.sym(r.head.Hash()), got)
					return
				}
			}
		}
	})
}

func (l *leaderWrap) guarded(v hotstuff.View) (id hotstuff.ID) {
	defer func() {
		if r := recover(); r != nil {
			l.nd.w.violate("C16", fmt.Sprintf("C16/%s/panic", l.nd.w.plan.Leader), l.nd, "GetLeader(%d) panicked: %v", v, r)
			panic(r)
		}
	}()
	return l.inner.GetLeader(v)
}
