package zz_verifsim

import (
	"github.com/relab/hotstuff"
)

// attachMonitors installs the oracles of the enabled properties.
func attachMonitors(w *World) {
	if w.want["C01"] {
		monC01(w)
	}
	if w.want["C07"] {
		monC07(w)
	}
	if w.want["C02"] {
		monC02(w)
	}
	if w.want["C03"] {
		monC03(w)
	}
	if w.want["C11"] {
		monC11(w)
	}
	if w.want["C04"] {
		monC04(w)
	}
	if w.want["C08"] {
		monC08(w)
	}
	if w.want["C09"] {
		monC09(w)
	}
	if w.want["C06"] {
		monC06(w)
	}
	if w.want["C05"] {
		monC05(w)
	}
	if w.want["C16"] {
		monC16(w)
	}
	if w.want["C12"] {
		monC12(w)
	}
	if w.want["C13"] {
		monC13(w)
	}
	if w.want["C10"] {
		w.probe("c10-armed")
	}
	monReach(w)
}

// monReach measures reach: abstract states and a few probes, for the evidence files.
func monReach(w *World) {
	w.hooks.afterStep = append(w.hooks.afterStep, func(nd *Node) {
		if !nd.honest {
			return
		}
		minView := hotstuff.View(1 << 62)
		for _, x := range w.nodes {
			if x.honest && !x.crashed && x.states.View() < minView {
				minView = x.states.View()
			}
		}
		rel := func(v hotstuff.View) uint64 {
			if v < minView {
				return 0
			}
			d := uint64(v - minView)
			if d > 15 {
				d = 15
			}
			return d + 1
		}
		var lockV hotstuff.View
		if l := nd.rules.lock(); l != nil {
			lockV = l.View()
		}
		s := mix(uint64(nd.slot), rel(nd.states.View()), rel(nd.states.HighQC().View()), rel(lockV),
			rel(nd.states.CommittedBlock().View()), rel(nd.voter.VerifLastVotedView()), rel(nd.states.HighTC().View()))
		w.stats.States[s] = struct{}{}
	})
	w.hooks.onViewChg = append(w.hooks.onViewChg, func(nd *Node, ev hotstuff.ViewChangeEvent) {
		if ev.Timeout {
			w.probe("viewchange-timeout")
		} else {
			w.probe("viewchange-qc")
		}
	})
}

// ---- C01: committed ledgers never diverge -----------------------------------------------------------

func monC01(w *World) {
	global := []hotstuff.Hash{} // position -> hash committed there by the first honest replica to get that far
	seen := map[*Node]map[hotstuff.Hash]bool{}
	w.hooks.onCommit = append(w.hooks.onCommit, func(nd *Node, b *hotstuff.Block) {
		if !nd.honest || nd.overflowed {
			return // an overflowed queue drops CommitEvents: the observed sequence has holes (C14/C06 matter)
		}
		w.reg.add(b, nil)
		pos := len(nd.committed) - 1
		prev := hotstuff.GetGenesis()
		if pos > 0 {
			prev = nd.committed[pos-1]
		}
		if seen[nd] == nil {
			seen[nd] = map[hotstuff.Hash]bool{}
		}
		if seen[nd][b.Hash()] {
			w.violate("C01", "C01/duplicate", nd, "%s committed %s twice", nd, w.reg.sym(b.Hash()))
			return
		}
		seen[nd][b.Hash()] = true
		if b.Parent() != prev.Hash() {
			w.violate("C01", "C01/chain-link", nd, "%s committed %s at position %d whose parent is %s, not the previously committed %s",
				nd, w.reg.sym(b.Hash()), pos, w.reg.sym(b.Parent()), w.reg.sym(prev.Hash()))
			return
		}
		if b.View() <= prev.View() {
			w.violate("C01", "C01/view-order", nd, "%s committed %s (view %d) after view %d", nd, w.reg.sym(b.Hash()), b.View(), prev.View())
			return
		}
		if pos < len(global) {
			if global[pos] != b.Hash() {
				w.violate("C01", "C01/prefix", nd, "%s committed %s at position %d where another honest replica committed %s",
					nd, w.reg.sym(b.Hash()), pos, w.reg.sym(global[pos]))
			}
			return
		}
		global = append(global, b.Hash())
		w.probe("commit-new-position")
	})
}

// ---- C07: views and certified state move forward, only on evidence -------------------------------------

type c07state struct {
	view, qc, tc, committed hotstuff.View
	lastVCE                 hotstuff.View
	qcs                     []hotstuff.QuorumCert
	tcs                     []hotstuff.TimeoutCert
	aggs                    []hotstuff.AggregateQC
	timeouts                map[hotstuff.View]map[hotstuff.ID]bool
	bestEvidence            hotstuff.View // highest view for which backed evidence is known
	haveEvidence            bool
	pendingQC, pendingTC, pendingAgg int
}

func monC07(w *World) {
	st := map[*Node]*c07state{}
	get := func(nd *Node) *c07state {
		s := st[nd]
		if s == nil {
			s = &c07state{view: 1, lastVCE: 1, timeouts: map[hotstuff.View]map[hotstuff.ID]bool{}}
			st[nd] = s
		}
		return s
	}
	noteTimeout := func(s *c07state, id hotstuff.ID, v hotstuff.View, sig hotstuff.QuorumSignature) {
		if sig == nil {
			return
		}
		if w.orc.validSigners(sig, sameMsg(v.ToBytes()))[id] {
			if s.timeouts[v] == nil {
				s.timeouts[v] = map[hotstuff.ID]bool{}
			}
			s.timeouts[v][id] = true
		}
	}
	addSI := func(s *c07state, si hotstuff.SyncInfo) {
		if qc, ok := si.QC(); ok {
			s.qcs = append(s.qcs, qc)
		}
		if tc, ok := si.TC(); ok {
			s.tcs = append(s.tcs, tc)
		}
		if agg, ok := si.AggQC(); ok {
			s.aggs = append(s.aggs, agg)
		}
	}
	// everything the replica is given, as its own handlers see it
	w.hooks.onHandle = append(w.hooks.onHandle, func(nd *Node, ev any) {
		if !nd.honest {
			return
		}
		s := get(nd)
		switch e := ev.(type) {
		case hotstuff.ProposeMsg:
			if e.Block != nil {
				s.qcs = append(s.qcs, e.Block.QuorumCert())
			}
			if e.AggregateQC != nil {
				s.aggs = append(s.aggs, *e.AggregateQC)
			}
		case hotstuff.NewViewMsg:
			addSI(s, e.SyncInfo)
		case hotstuff.TimeoutMsg:
			addSI(s, e.SyncInfo)
			noteTimeout(s, e.ID, e.View, e.ViewSignature)
		}
	})
	// its own timeout signatures
	w.hooks.onSign = append(w.hooks.onSign, func(nd *Node, msg []byte, sig hotstuff.QuorumSignature) {
		if !nd.honest || len(msg) != 8 {
			return
		}
		s := get(nd)
		v := hotstuff.View(leU64(msg))
		if s.timeouts[v] == nil {
			s.timeouts[v] = map[hotstuff.ID]bool{}
		}
		s.timeouts[v][nd.id] = true
	})
	// evidence for leaving view v: a backed certificate, or the raw quorum of timeouts, for a view >= v
	evidence := func(s *c07state, v hotstuff.View) bool {
		if s.haveEvidence && s.bestEvidence >= v {
			return true
		}
		note := func(u hotstuff.View) {
			if !s.haveEvidence || u > s.bestEvidence {
				s.bestEvidence, s.haveEvidence = u, true
			}
		}
		for ; s.pendingQC < len(s.qcs); s.pendingQC++ {
			qc := s.qcs[s.pendingQC]
			if ok, _ := w.orc.qcBacked(qc); ok {
				note(qc.View())
			}
		}
		for ; s.pendingTC < len(s.tcs); s.pendingTC++ {
			tc := s.tcs[s.pendingTC]
			if ok, _ := w.orc.tcBacked(tc); ok {
				note(tc.View())
			}
		}
		for ; s.pendingAgg < len(s.aggs); s.pendingAgg++ {
			agg := s.aggs[s.pendingAgg]
			if ok, _, _, _ := w.orc.aggBacked(agg); ok {
				note(agg.View())
			}
		}
		for u, set := range s.timeouts {
			if u >= v && len(set) >= w.orc.q {
				note(u)
			}
		}
		return s.haveEvidence && s.bestEvidence >= v
	}
	w.hooks.afterStep = append(w.hooks.afterStep, func(nd *Node) {
		if !nd.honest {
			return
		}
		s := get(nd)
		view, qc, tc, cm := nd.states.View(), nd.states.HighQC().View(), nd.states.HighTC().View(), nd.states.CommittedBlock().View()
		switch {
		case view < s.view:
			w.violate("C07", "C07/decrease-view", nd, "%s view went from %d to %d", nd, s.view, view)
		case qc < s.qc:
			w.violate("C07", "C07/decrease-highqc", nd, "%s high QC view went from %d to %d", nd, s.qc, qc)
		case tc < s.tc:
			w.violate("C07", "C07/decrease-hightc", nd, "%s high TC view went from %d to %d", nd, s.tc, tc)
		case cm < s.committed:
			w.violate("C07", "C07/decrease-committed", nd, "%s committed view went from %d to %d", nd, s.committed, cm)
		}
		for v := s.view; v < view; v++ {
			if !evidence(s, v) {
				w.violate("C07", "C07/no-evidence", nd,
					"%s left view %d (now %d) holding no quorum certificate, timeout certificate or quorum of timeouts for a view >= %d that a quorum of distinct replicas really signed",
					nd, v, view, v)
				break
			}
			w.probe("view-advance-with-evidence")
		}
		if qc > s.qc {
			// the new high QC itself must be backed
			if ok, why := w.orc.qcBacked(nd.states.HighQC()); !ok {
				w.violate("C07", "C07/highqc-unbacked", nd, "%s adopted a high QC for view %d that no quorum signed: %s", nd, qc, why)
			}
		}
		if tc > s.tc {
			// so must the new high TC
			if ok, why := w.orc.tcBacked(nd.states.HighTC()); !ok {
				w.violate("C07", "C07/hightc-unbacked", nd, "%s adopted a high TC for view %d that no quorum signed: %s", nd, tc, why)
			}
		}
		s.view, s.qc, s.tc, s.committed = view, qc, tc, cm
	})
	w.hooks.onViewChg = append(w.hooks.onViewChg, func(nd *Node, ev hotstuff.ViewChangeEvent) {
		if !nd.honest {
			return
		}
		s := get(nd)
		if ev.View != s.lastVCE+1 {
			w.violate("C07", "C07/signal", nd, "%s signalled view change to %d after %d (views must be signalled one by one)", nd, ev.View, s.lastVCE)
		}
		if ev.View > nd.states.View() {
			w.violate("C07", "C07/signal", nd, "%s signalled view %d while in view %d", nd, ev.View, nd.states.View())
		}
		s.lastVCE = ev.View
	})
	w.hooks.atEnd = append(w.hooks.atEnd, func() {
		if w.viol != nil {
			return
		}
		for _, nd := range w.nodes {
			if !nd.honest || nd.crashed || nd.pausedUntil > w.now() {
				continue
			}
			// drain what is queued, then every view passed must have been signalled
			s := get(nd)
			if nd.quiescent() && s.lastVCE != nd.states.View() {
				w.violate("C07", "C07/signal", nd, "%s is in view %d but signalled view changes only up to %d", nd, nd.states.View(), s.lastVCE)
			}
		}
	})
}

func leU64(b []byte) uint64 {
	var x uint64
	for i := 7; i >= 0; i-- {
		x = x<<8 | uint64(b[i])
	}
	return x
}

