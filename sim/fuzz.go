package zz_verifsim

import (
	"strings"
	"sort"
	"fmt"

	"github.com/relab/gorums"
	"github.com/relab/hotstuff"
	"github.com/relab/hotstuff/internal/proto/hotstuffpb"
	"github.com/relab/hotstuff/internal/proto/kauripb"
	"google.golang.org/protobuf/proto"
	"google.golang.org/protobuf/reflect/protoreflect"
)

// Structurally arbitrary wire messages (adversary action A7). Two generators:
//
//   mutate  - a real message captured from the simulated traffic, put through a generic,
//             reflection-driven mutator: any field absent/present, bytes truncated, extended,
//             flipped or emptied, numbers extreme, oneof variants switched, map and list entries
//             dropped, duplicated or invented. Such a message may still carry valid parts.
//   garbage - a message built from nothing but invented material (no real signature in it):
//             nothing in it can verify, so the receiver's protocol state must not change.

type fuzzer struct {
	w    *World
	pool map[string][][]byte // kind -> captured wire messages
	r    *gen
}

func newFuzzer(w *World) *fuzzer {
	f := &fuzzer{w: w, pool: map[string][][]byte{}}
	w.hooks.onSend = append(w.hooks.onSend, func(from *Node, to hotstuff.ID, m *Msg) {
		if m.wire != nil && !m.forged && len(f.pool[m.kind]) < 64 {
			f.pool[m.kind] = append(f.pool[m.kind], m.wire)
		}
	})
	return f
}

func newPB(kind string) proto.Message {
	switch kind {
	case "propose":
		return &hotstuffpb.Proposal{}
	case "vote":
		return &hotstuffpb.PartialCert{}
	case "newview":
		return &hotstuffpb.SyncInfo{}
	case "timeout":
		return &hotstuffpb.TimeoutMsg{}
	case "fetch":
		return &hotstuffpb.BlockHash{}
	case "contrib":
		return &kauripb.Contribution{}
	}
	return nil
}

func (f *fuzzer) bytesOf(n int) []byte {
	b := make([]byte, n)
	for i := range b {
		b[i] = byte(f.r.intn(256))
	}
	return b
}

func (f *fuzzer) oddLen() int {
	return pick(f.r, 0, 1, 7, 31, 32, 32, 33, 48, 64, 95, 96, 97, 200)
}

func (f *fuzzer) num(bits int) uint64 {
	max := uint64(1)<<uint(bits) - 1
	if bits == 64 {
		max = ^uint64(0)
	}
	n := uint64(f.w.plan.N)
	return pick(f.r, 0, 1, 2, n, n+1, 3, 5, 10, 11, 1000, max, max-1, uint64(f.r.intn(64)), uint64(f.w.stats.MaxView), uint64(f.w.stats.MaxView)+1)
}

// mutate walks the message and changes it in place.
func (f *fuzzer) mutate(m protoreflect.Message, depth int, rate float64) {
	fds := m.Descriptor().Fields()
	for i := 0; i < fds.Len(); i++ {
		fd := fds.Get(i)
		if !f.r.p(rate) {
			// descend without changing this level
			if m.Has(fd) && fd.Kind() == protoreflect.MessageKind && !fd.IsMap() && !fd.IsList() && depth < 8 {
				f.mutate(m.Mutable(fd).Message(), depth+1, rate)
			}
			if m.Has(fd) && fd.IsMap() && fd.MapValue().Kind() == protoreflect.MessageKind && depth < 8 {
				m.Mutable(fd).Map().Range(func(_ protoreflect.MapKey, v protoreflect.Value) bool {
					f.mutate(v.Message(), depth+1, rate)
					return true
				})
			}
			continue
		}
		f.w.fault("fuzz:field-mutated")
		switch {
		case fd.IsMap():
			mp := m.Mutable(fd).Map()
			switch f.r.intn(4) {
			case 0:
				m.Clear(fd)
			case 1: // invent an entry
				k := protoreflect.ValueOfUint32(uint32(f.num(32))).MapKey()
				v := mp.NewValue()
				if fd.MapValue().Kind() == protoreflect.MessageKind {
					f.fill(v.Message(), depth+1)
				}
				mp.Set(k, v)
			case 2: // drop one
				var first protoreflect.MapKey
				have := false
				lo := uint64(1 << 62)
				mp.Range(func(k protoreflect.MapKey, _ protoreflect.Value) bool {
					if k.Uint() < lo {
						lo, first, have = k.Uint(), k, true
					}
					return true
				})
				if have {
					mp.Clear(first)
				}
			case 3: // empty value under an existing key
				var first protoreflect.MapKey
				have := false
				lo := uint64(1 << 62)
				mp.Range(func(k protoreflect.MapKey, _ protoreflect.Value) bool {
					if k.Uint() < lo {
						lo, first, have = k.Uint(), k, true
					}
					return true
				})
				if have {
					mp.Set(first, mp.NewValue())
				}
			}
		case fd.IsList():
			l := m.Mutable(fd).List()
			switch f.r.intn(5) {
			case 0:
				m.Clear(fd)
			case 1:
				if l.Len() > 0 {
					l.Truncate(l.Len() - 1)
				}
			case 2:
				if l.Len() > 0 {
					l.Append(l.Get(f.r.intn(l.Len())))
				}
			case 3:
				e := l.NewElement()
				if fd.Kind() == protoreflect.MessageKind {
					f.fill(e.Message(), depth+1)
				}
				l.Append(e)
			case 4:
				if l.Len() > 0 && fd.Kind() == protoreflect.MessageKind {
					f.mutate(l.Get(f.r.intn(l.Len())).Message(), depth+1, 0.6)
				}
			}
		case fd.Kind() == protoreflect.MessageKind:
			switch f.r.intn(4) {
			case 0:
				m.Clear(fd)
			case 1: // present but empty
				m.Set(fd, protoreflect.ValueOfMessage(m.NewField(fd).Message()))
			case 2:
				nm := m.NewField(fd).Message()
				f.fill(nm, depth+1)
				m.Set(fd, protoreflect.ValueOfMessage(nm))
			case 3:
				if depth < 8 {
					f.mutate(m.Mutable(fd).Message(), depth+1, 0.5)
				}
			}
		case fd.Kind() == protoreflect.BytesKind:
			cur := m.Get(fd).Bytes()
			var nb []byte
			switch f.r.intn(6) {
			case 0:
				nb = nil
			case 1:
				if len(cur) > 0 {
					nb = append([]byte(nil), cur[:f.r.intn(len(cur))]...)
				}
			case 2:
				nb = append(append([]byte(nil), cur...), f.bytesOf(1+f.r.intn(8))...)
			case 3:
				nb = append([]byte(nil), cur...)
				if len(nb) > 0 {
					nb[f.r.intn(len(nb))] ^= byte(1 << uint(f.r.intn(8)))
				}
			case 4:
				nb = f.bytesOf(f.oddLen())
			case 5:
				nb = make([]byte, len(cur))
			}
			m.Set(fd, protoreflect.ValueOfBytes(nb))
		case fd.Kind() == protoreflect.Uint32Kind:
			m.Set(fd, protoreflect.ValueOfUint32(uint32(f.num(32))))
		case fd.Kind() == protoreflect.Uint64Kind:
			m.Set(fd, protoreflect.ValueOfUint64(f.num(64)))
		case fd.Kind() == protoreflect.Int64Kind:
			m.Set(fd, protoreflect.ValueOfInt64(int64(f.num(64))))
		case fd.Kind() == protoreflect.Int32Kind:
			m.Set(fd, protoreflect.ValueOfInt32(int32(f.num(32))))
		}
	}
}

// fill invents the content of a message: every field present with probability 1/2, all material invented.
// injectCorrupted delivers a genuine recorded message in which every signature has been spoiled (signer labels,
// views, hashes and structure intact, so it passes every check that comes before signature verification), lets the
// replica handle it, and delivers the very same bytes again: nothing in it verifies, so the protocol state must be
// the same before and after each delivery — also at a replica that caches verification results.
func (a *adversary) injectCorrupted(in Inject, target *Node, pm proto.Message) {
	w, f := a.w, a.fz
	if len(f.pool[in.Kind]) == 0 || !target.honest {
		return
	}
	raw := f.pool[in.Kind][f.r.intn(len(f.pool[in.Kind]))]
	if n := len(f.pool[in.Kind]); f.r.p(0.5) {
		// one of the newest three: a message the target may not have handled yet (lost, late, or the target is behind)
		raw = f.pool[in.Kind][n-1-f.r.intn(min(n, 3))]
	}
	if proto.Unmarshal(raw, pm) != nil {
		return
	}
	if corruptSigs(pm.ProtoReflect()) == 0 {
		return // carries no signature at all (e.g. only the genesis certificate): a valid message
	}
	buf, err := proto.Marshal(pm)
	if err != nil {
		return
	}
	w.fault("fuzz:all-signatures-spoiled-" + in.Kind)
	w.logf("INJECT n%d->n%d %s all signatures spoiled, twice", in.From, in.To, in.Kind)
	released := false
	drain := func() bool {
		for i := 0; i < 500; i++ {
			handled := false
			target.curEvent = nil
			w.guard(target, "tick", func() { handled = target.el.Tick(w.ctx) })
			if target.crashed {
				return false
			}
			if !handled {
				return true
			}
			if v, ok := target.curEvent.(hotstuff.VoteMsg); ok && v.Deferred {
				released = true
			}
			w.step++
			w.afterStep(target)
			if w.viol != nil {
				return false
			}
		}
		return false
	}
	for round := 1; round <= 2; round++ {
		m := &Msg{fromID: hotstuff.ID(in.From), to: target, kind: in.Kind, wire: buf, forged: true}
		if target.crashed || target.pausedUntil > w.now() || !drain() {
			w.deliver(m, in.From)
			return
		}
		before := target.snap()
		released = false
		w.deliver(m, in.From)
		if target.crashed || !drain() {
			return
		}
		after := target.snap()
		if released {
			w.probe("c10-deferred-vote-released")
			return
		}
		w.probe("c10-state-compared")
		if round == 2 {
			w.probe("c10-state-compared-on-redelivery")
		}
		if before != after {
			w.violate("C10", "C10/state-changed", target, "%s handled (delivery %d) a %s message in which every signature is spoiled, and its state changed from {%v} to {%v}", target, round, in.Kind, before, after)
			return
		}
	}
}

// padBitfields appends k zero bytes to every "Participants" byte field below m and returns how many it padded.
func padBitfields(m protoreflect.Message, k int) int {
	n := 0
	m.Range(func(fd protoreflect.FieldDescriptor, v protoreflect.Value) bool {
		switch {
		case fd.Kind() == protoreflect.BytesKind && strings.EqualFold(string(fd.Name()), "participants") && !fd.IsList():
			b := append(append([]byte{}, v.Bytes()...), make([]byte, k)...)
			m.Set(fd, protoreflect.ValueOfBytes(b))
			n++
		case fd.IsMap():
			if fd.MapValue().Kind() == protoreflect.MessageKind {
				v.Map().Range(func(_ protoreflect.MapKey, mv protoreflect.Value) bool {
					n += padBitfields(mv.Message(), k)
					return true
				})
			}
		case fd.IsList():
			if fd.Kind() == protoreflect.MessageKind {
				for i := 0; i < v.List().Len(); i++ {
					n += padBitfields(v.List().Get(i).Message(), k)
				}
			}
		case fd.Kind() == protoreflect.MessageKind:
			n += padBitfields(v.Message(), k)
		}
		return true
	})
	return n
}

// corruptSigs flips one byte in every signature value below m and returns how many it spoiled.
func corruptSigs(m protoreflect.Message) int {
	n := 0
	name := string(m.Descriptor().Name())
	m.Range(func(fd protoreflect.FieldDescriptor, v protoreflect.Value) bool {
		switch {
		case fd.Kind() == protoreflect.BytesKind && string(fd.Name()) == "Sig" &&
			(name == "ECDSASignature" || name == "EDDSASignature" || name == "BLS12Signature" || name == "BLS12AggregateSignature"):
			b := append([]byte(nil), v.Bytes()...)
			if len(b) > 0 {
				b[len(b)/2] ^= 0x5a
				m.Set(fd, protoreflect.ValueOfBytes(b))
				n++
			}
		case fd.IsMap():
			if fd.MapValue().Kind() == protoreflect.MessageKind {
				// keys in ascending order: Range over a protobuf map is unordered
				var keys []uint64
				v.Map().Range(func(k protoreflect.MapKey, _ protoreflect.Value) bool {
					keys = append(keys, k.Uint())
					return true
				})
				sort.Slice(keys, func(i, j int) bool { return keys[i] < keys[j] })
				for _, k := range keys {
					n += corruptSigs(v.Map().Get(protoreflect.ValueOfUint32(uint32(k)).MapKey()).Message())
				}
			}
		case fd.IsList():
			if fd.Kind() == protoreflect.MessageKind {
				for i := 0; i < v.List().Len(); i++ {
					n += corruptSigs(v.List().Get(i).Message())
				}
			}
		case fd.Kind() == protoreflect.MessageKind:
			n += corruptSigs(v.Message())
		}
		return true
	})
	return n
}

func (f *fuzzer) fill(m protoreflect.Message, depth int) {
	fds := m.Descriptor().Fields()
	oneofDone := map[string]bool{}
	for i := 0; i < fds.Len(); i++ {
		fd := fds.Get(i)
		if od := fd.ContainingOneof(); od != nil {
			if oneofDone[string(od.Name())] {
				continue
			}
			// choose one variant (or none)
			k := f.r.intn(od.Fields().Len() + 1)
			oneofDone[string(od.Name())] = true
			if k == od.Fields().Len() {
				continue
			}
			fd = od.Fields().Get(k)
		} else if !f.r.p(0.6) {
			continue
		}
		switch {
		case fd.IsMap():
			mp := m.Mutable(fd).Map()
			for j := 0; j < f.r.intn(4); j++ {
				v := mp.NewValue()
				if fd.MapValue().Kind() == protoreflect.MessageKind && depth < 6 {
					f.fill(v.Message(), depth+1)
				}
				mp.Set(protoreflect.ValueOfUint32(uint32(f.num(32))).MapKey(), v)
			}
		case fd.IsList():
			l := m.Mutable(fd).List()
			for j := 0; j < f.r.intn(5); j++ {
				e := l.NewElement()
				if fd.Kind() == protoreflect.MessageKind && depth < 6 {
					f.fill(e.Message(), depth+1)
				}
				l.Append(e)
			}
		case fd.Kind() == protoreflect.MessageKind:
			nm := m.NewField(fd).Message()
			if depth < 6 {
				f.fill(nm, depth+1)
			}
			m.Set(fd, protoreflect.ValueOfMessage(nm))
		case fd.Kind() == protoreflect.BytesKind:
			name := string(fd.Name())
			var b []byte
			if (name == "Hash" || name == "Parent") && f.r.p(0.5) && len(f.w.reg.order) > 1 {
				// a real block hash: hashes are public, signatures are not. Not genesis: its
				// certificate needs no signature, so it is a valid certificate, not garbage.
				h := f.w.reg.order[1+f.r.intn(len(f.w.reg.order)-1)].b.Hash()
				b = h[:]
			} else {
				b = f.bytesOf(f.oddLen())
			}
			m.Set(fd, protoreflect.ValueOfBytes(b))
		case fd.Kind() == protoreflect.Uint32Kind:
			m.Set(fd, protoreflect.ValueOfUint32(uint32(f.num(32))))
		case fd.Kind() == protoreflect.Uint64Kind:
			m.Set(fd, protoreflect.ValueOfUint64(f.num(64)))
		case fd.Kind() == protoreflect.Int64Kind:
			m.Set(fd, protoreflect.ValueOfInt64(int64(f.num(64)%4000000000)))
		case fd.Kind() == protoreflect.Int32Kind:
			m.Set(fd, protoreflect.ValueOfInt32(int32(f.num(31)%1000000000)))
		}
	}
}

type snapshot struct {
	view, qcView, tcView, lastVoted hotstuff.View
	qcHash, lock, committed          hotstuff.Hash
}

func (nd *Node) snap() snapshot {
	s := snapshot{view: nd.states.View(), qcView: nd.states.HighQC().View(), qcHash: nd.states.HighQC().BlockHash(),
		tcView: nd.states.HighTC().View(), committed: nd.states.CommittedBlock().Hash(), lastVoted: nd.voter.VerifLastVotedView()}
	if l := nd.rules.lock(); l != nil {
		s.lock = l.Hash()
	}
	return s
}

func (s snapshot) String() string {
	return fmt.Sprintf("view=%d highQC=%x@%d highTC=%d lock=%x committed=%x lastVoted=%d", s.view, s.qcHash[:3], s.qcView, s.tcView, s.lock[:3], s.committed[:3], s.lastVoted)
}

// injectWire delivers one structurally arbitrary message from a Byzantine identity to a running replica.
func (a *adversary) injectWire(in Inject) {
	w := a.w
	if !w.plan.Wire || w.viol != nil {
		return
	}
	if a.fz == nil {
		return
	}
	f := a.fz
	f.r = newGen(in.Gen, 77)
	target := w.primary(in.To)
	if target == nil || target.crashed || in.From == in.To {
		return
	}
	pm := newPB(in.Kind)
	if in.Mode == "corrupt" && f.r.p(0.2) && len(f.pool[in.Kind]) > 0 {
		// a genuine recorded message, valid in every respect, whose signer bit fields (BLS) carry trailing zero bytes
		raw := f.pool[in.Kind][len(f.pool[in.Kind])-1-f.r.intn(min(len(f.pool[in.Kind]), 3))]
		if proto.Unmarshal(raw, pm) == nil && padBitfields(pm.ProtoReflect(), 1+f.r.intn(3)) > 0 {
			if buf, err := proto.Marshal(pm); err == nil {
				w.fault("fuzz:padded-bit-field-" + in.Kind)
				w.deliver(&Msg{fromID: hotstuff.ID(in.From), to: target, kind: in.Kind, wire: buf, forged: true}, in.From)
				return
			}
		}
		pm = newPB(in.Kind)
	}
	if in.Mode == "corrupt" {
		a.injectCorrupted(in, target, pm)
		return
	}
	garbage := f.r.p(0.4) || len(f.pool[in.Kind]) == 0
	if garbage {
		f.fill(pm.ProtoReflect(), 0)
		w.fault("fuzz:garbage-" + in.Kind)
	} else {
		raw := f.pool[in.Kind][f.r.intn(len(f.pool[in.Kind]))]
		if proto.Unmarshal(raw, pm) != nil {
			return
		}
		f.mutate(pm.ProtoReflect(), 0, pick(f.r, 0.05, 0.15, 0.3))
		w.fault("fuzz:mutated-" + in.Kind)
	}
	buf, err := proto.Marshal(pm)
	if err != nil {
		return
	}
	if f.r.p(0.05) && len(buf) > 0 {
		buf = buf[:f.r.intn(len(buf))] // truncated on the wire: the RPC layer would reject what does not parse
	}
	w.logf("INJECT n%d->n%d %s garbage=%v", in.From, in.To, in.Kind, garbage)
	if in.Kind == "fetch" {
		pb := &hotstuffpb.BlockHash{}
		if proto.Unmarshal(buf, pb) != nil {
			return
		}
		w.guard(target, "RequestBlock", func() {
			_, _ = target.svc.RequestBlock(gorums.ServerCtx{Context: peerCtx(w.ctx, hotstuff.ID(in.From))}, pb)
		})
		return
	}
	m := &Msg{fromID: hotstuff.ID(in.From), to: target, kind: in.Kind, wire: buf, forged: true}
	if a := mix(in.Gen, 0x616e6f6e) % 10; a < 2 || (a == 2 && w.plan.knob("latmatrix", 0) == 1) {
		m.anon = int(a) + 1 // a Byzantine peer also chooses what its connection says about who it is
		w.fault("fuzz:unidentified-sender")
	}
	if !garbage || target.honest == false {
		w.deliver(m, in.From)
		return
	}
	// garbage: nothing in it can verify, so the protocol state must be the same before and after.
	// The replica first works off its backlog (a legal schedule), then handles only this message.
	released := false
	drain := func() bool {
		for i := 0; i < 500; i++ {
			handled := false
			target.curEvent = nil
			w.guard(target, "tick", func() { handled = target.el.Tick(w.ctx) })
			if target.crashed {
				return false
			}
			if !handled {
				return true
			}
			if v, ok := target.curEvent.(hotstuff.VoteMsg); ok && v.Deferred {
				released = true // an earlier, deferred vote was released by this event: its effects are not the message's
			}
			w.step++
			w.afterStep(target)
			if w.viol != nil {
				return false
			}
		}
		return false
	}
	if target.pausedUntil > w.now() || !drain() {
		w.deliver(m, in.From)
		return
	}
	before := target.snap()
	released = false
	w.deliver(m, in.From)
	if target.crashed || !drain() {
		return
	}
	after := target.snap()
	if released {
		w.probe("c10-deferred-vote-released")
		return
	}
	w.probe("c10-state-compared")
	if before != after {
		w.violate("C10", "C10/state-changed", target, "%s handled a %s message in which nothing verifies, and its state changed from {%v} to {%v}", target, in.Kind, before, after)
	}
}
