package zz_verifsim

import (
	"encoding/json"
	"math/rand/v2"
	"os"
)

// A Plan is the complete, replayable description of one simulated execution.
// It is a pure function of (property profile, seed); the execution is a pure function of the Plan.
type Plan struct {
	Version  int    `json:"version"`
	Property string `json:"property"`
	Seed     uint64 `json:"seed"`
	Inner    uint64 `json:"innerSeed"`
	World    string `json:"world"` // consensus | puppet | eventloop | cmdcache

	N          int      `json:"n"`
	Ruleset    string   `json:"ruleset"`
	Crypto     string   `json:"crypto"`
	Cache      int      `json:"cache"`
	SyncVerify bool     `json:"syncVerify"`
	Wire       bool     `json:"wire"`
	Leader     string   `json:"leader"`
	Script     []int    `json:"leaderScript,omitempty"`
	PrefixScript []int  `json:"prefixLeaderScript,omitempty"` // scripted leaders of views 1..len (any replica); later views use leaderScript
	ViewDur    ViewDur  `json:"viewDuration"`
	Batch      int      `json:"batch"`
	Clients    int      `json:"clients"` // closed-loop clients using the real ClientIO (0 = none)
	Filler     bool     `json:"filler"`  // keep every command cache saturated
	Queue      int      `json:"queue"`
	Links      LinkCfg  `json:"links"`
	ProcUs     int      `json:"procUs"` // max per-event processing delay (microseconds)
	Skew       []SkewNd `json:"skew,omitempty"`
	EarlyTimer float64  `json:"earlyTimer,omitempty"` // probability that an armed view timer is cut short
	FetchFail  float64  `json:"fetchFail,omitempty"`  // probability that a block fetch times out
	Byz        []ByzNd  `json:"faulty,omitempty"`
	Faults     []Fault  `json:"faults,omitempty"`
	Inject     []Inject `json:"inject,omitempty"` // adversarial wire messages at timed instants
	ViewParts  []ViewPart `json:"viewPartitions,omitempty"` // Twins-style: who can talk to whom while the sender is in that view
	HealAtMs   int      `json:"healAtMs,omitempty"`
	PrefixViews int     `json:"prefixViews,omitempty"` // C05: the synchronous phase starts no later than this view
	Sync       []int    `json:"syncQuorum,omitempty"` // C05: members of the synchronous quorum after HealAtMs
	UntilMs    int      `json:"untilMs"`
	MaxViews   int      `json:"maxViews"`
	MaxSteps   int      `json:"maxSteps"`
	Ops        []SmallOp `json:"ops,omitempty"` // small worlds (eventloop, cmdcache)
	Knobs      map[string]int `json:"knobs,omitempty"`

	Violation *Violation `json:"violation,omitempty"`
}

// ViewPart is a network partition tied to a view: a message is carried only if, in the sender's current view,
// sender and receiver are in the same group. Addresses as in Fault.Groups (a twin is the negative id).
type ViewPart struct {
	View   int     `json:"view"`
	Groups [][]int `json:"groups"`
}

type ViewDur struct {
	Kind string  `json:"kind"` // fixed | dynamic
	Ms   int     `json:"ms"`
	MaxMs int    `json:"maxMs,omitempty"`
	Mul  float64 `json:"mul,omitempty"`
}

type LinkCfg struct {
	BaseUs   int     `json:"baseUs"`
	JitterUs int     `json:"jitterUs"`
	Drop     float64 `json:"drop"`
	Dup      float64 `json:"dup"`
	SlowProb float64 `json:"slowProb,omitempty"` // probability of a long extra delay (reordering across views)
	SlowMs   int     `json:"slowMs,omitempty"`
}

type SkewNd struct {
	Node   int     `json:"node"`
	Factor float64 `json:"factor"`
}

type ByzNd struct {
	ID   int      `json:"id"`
	Kind string   `json:"kind"` // twin | script | silent | crash
	Acts []string `json:"acts,omitempty"`
	Rate float64  `json:"rate,omitempty"`
}

type Fault struct {
	AtMs   int     `json:"atMs"`
	Kind   string  `json:"kind"` // partition | heal | pause | crash | linkdown | linkup
	Node   int     `json:"node,omitempty"`
	Peer   int     `json:"peer,omitempty"`
	Groups [][]int `json:"groups,omitempty"`
	ForMs  int     `json:"forMs,omitempty"`
	DelayMs int    `json:"delayMs,omitempty"`
}

type Inject struct {
	AtMs int    `json:"atMs"`
	From int    `json:"from"`
	To   int    `json:"to"`
	Kind string `json:"kind"` // propose | vote | newview | timeout | fetch
	Gen  uint64 `json:"gen"`  // seed of the structural generator for this message
	Mode string `json:"mode,omitempty"` // "corrupt": a recorded genuine message with every signature spoiled, delivered twice
}

type SmallOp struct {
	Task int    `json:"t"`
	Op   string `json:"op"`
	A    int    `json:"a,omitempty"`
	B    int    `json:"b,omitempty"`
}

type Violation struct {
	Property string `json:"property"`
	Class    string `json:"class"`
	Step     uint64 `json:"step"`
	AtNs     int64  `json:"atNs"`
	Node     int    `json:"node"`
	Detail   string `json:"detail"`
	Trace    []string `json:"trace,omitempty"`
}

func (p *Plan) JSON() []byte {
	b, _ := json.MarshalIndent(p, "", " ")
	return b
}

func LoadPlan(path string) (*Plan, error) {
	b, err := os.ReadFile(path)
	if err != nil {
		return nil, err
	}
	var p Plan
	if err := json.Unmarshal(b, &p); err != nil {
		return nil, err
	}
	return &p, nil
}

func (p *Plan) Clone() *Plan {
	var q Plan
	_ = json.Unmarshal(p.JSON(), &q)
	return &q
}

func (p *Plan) knob(name string, def int) int {
	if v, ok := p.Knobs[name]; ok {
		return v
	}
	return def
}

// ---- seeded generation --------------------------------------------------------------------

type gen struct{ r *rand.Rand }

func newGen(seed uint64, stream uint64) *gen {
	return &gen{r: rand.New(rand.NewPCG(seed, stream^0x9e3779b97f4a7c15))}
}
func (g *gen) intn(n int) int          { return g.r.IntN(n) }
func (g *gen) rng(lo, hi int) int      { return lo + g.r.IntN(hi-lo+1) }
func (g *gen) p(prob float64) bool     { return g.r.Float64() < prob }
func (g *gen) f(lo, hi float64) float64 { return lo + g.r.Float64()*(hi-lo) }
func (g *gen) u64() uint64             { return g.r.Uint64() }
func pick[T any](g *gen, xs ...T) T    { return xs[g.intn(len(xs))] }
func (g *gen) weighted(ws ...int) int {
	t := 0
	for _, w := range ws {
		t += w
	}
	x := g.intn(t)
	for i, w := range ws {
		if x < w {
			return i
		}
		x -= w
	}
	return len(ws) - 1
}

func (g *gen) subset(n, k int) []int { // k distinct values from 1..n, ascending
	perm := g.r.Perm(n)
	out := append([]int(nil), perm[:k]...)
	for i := range out {
		out[i]++
	}
	sortInts(out)
	return out
}

func sortInts(a []int) {
	for i := 1; i < len(a); i++ {
		for j := i; j > 0 && a[j] < a[j-1]; j-- {
			a[j], a[j-1] = a[j-1], a[j]
		}
	}
}

// profile describes what a property wants from the generator.
type profile struct {
	byz       float64 // probability of having Byzantine replicas at all
	acts      []string
	faults    int  // max number of timed network faults
	liveness  bool // C05 shape: prefix, heal, synchronous suffix
	clients   bool // real ClientIO clients
	inject    int  // max number of injected arbitrary wire messages (C10)
	forceWire bool
	nSwarm    bool // n from 1..13 occasionally
	leaders   []string
	faultFree float64 // probability of a completely fault-free run
}

var allActs = []string{"equivocate", "badparent", "staleqc", "inflate", "dupsigner", "relabel", "subquorum",
	"wrongblock", "genesisview", "futuretimeout", "badtimeoutsig", "dupvote", "multivote", "zerovote", "unknownvote",
	"strayvote", "replay", "liefetch", "silent", "staleTC", "swapids", "nosig", "sameview", "aggreplay", "forgevote", "forgetc", "forgecontrib", "aggtwin", "aggattest", "aggforge", "roguekey", "payloadeq", "qceq", "aggswap", "aggstale", "spoofproposer", "dupbatch", "zeroview", "anoncontrib", "lockless", "noqctimeout", "genesissig", "stalechain", "stalechain", "stalechain", "fhshide", "onevalid", "onevalid", "agglone", "agglone", "timeoutqc", "timeoutqc", "padbits"}

func profileFor(prop string) profile {
	pr := profile{byz: 0.6, acts: allActs, faults: 6, leaders: []string{"round-robin", "round-robin", "round-robin", "fixed", "carousel", "reputation", "scripted"}}
	switch prop {
	case "C13":
		pr.byz = 0.8
		pr.acts = []string{"equivocate", "equivocate", "equivocate", "badparent", "sameview", "staleqc", "liefetch", "liefetch", "silent", "replay", "futuretimeout"}
	case "C03":
		pr.acts = append(append([]string{}, allActs...), "spoofproposer", "spoofproposer", "spoofproposer", "spoofproposer",
			// certificates that nobody backs, so that the list of everything else does not thin them out
			"dupsigner", "dupsigner", "dupsigner", "dupsigner", "dupsigner", "dupsigner", "subquorum", "subquorum", "relabel", "relabel", "wrongblock", "wrongblock", "onevalid", "onevalid")
	case "C01", "C07":
	case "C11":
		pr.byz = 0.9
		pr.nSwarm = true
		// what can make a cache wrong: the same signature bytes with another message, batch, view or signer labels
		pr.acts = []string{"aggreplay", "aggreplay", "aggreplay", "replay", "replay", "relabel", "swapids", "swapids", "wrongblock", "subquorum", "dupsigner",
			"staleTC", "forgetc", "forgevote", "badtimeoutsig", "equivocate"}
	case "C02":
		pr.byz = 0.85
		pr.nSwarm = true
	case "C05":
		pr.liveness = true
		pr.byz = 0
		pr.leaders = []string{"round-robin", "fixed", "scripted"}
		pr.faultFree = 0.2
	case "C06":
		pr.clients = true
		pr.acts = append(append([]string{}, allActs...), "payloadeq", "payloadeq", "payloadeq", "payloadeq", "equivocate", "equivocate", "dupbatch", "dupbatch", "dupbatch", "dupbatch")
	case "C10":
		pr.inject = 40
		pr.forceWire = true
		pr.byz = 0.3
	case "C12":
		pr.forceWire = true
	case "C08":
		pr.byz = 0.7
		pr.acts = []string{"futuretimeout", "futuretimeout", "badtimeoutsig", "badtimeoutsig", "staleTC", "replay", "silent", "equivocate", "relabel", "aggreplay", "nosig", "noqctimeout", "noqctimeout"}
		pr.leaders = []string{"round-robin", "fixed", "scripted"}
	case "C09":
		pr.byz = 0.7
		pr.acts = []string{"dupvote", "multivote", "multivote", "zerovote", "zerovote", "unknownvote", "strayvote", "replay", "equivocate", "futuretimeout", "forgevote", "forgevote", "forgevote"}
		pr.leaders = []string{"round-robin", "fixed", "scripted"}
	case "C16":
		pr.byz = 0.5
		pr.acts = append(append([]string{}, allActs...), "qceq", "qceq", "qceq", "qceq", "qceq", "qceq", "qceq", "qceq", "genesissig", "genesissig", "genesissig", "genesissig", "genesissig", "genesissig")
		pr.leaders = []string{"round-robin", "fixed", "carousel", "carousel", "reputation", "reputation"}
	}
	return pr
}

// deepTier reports whether plans are generated for the thorough tier (the tier is part of the plan's identity:
// thorough seeds are offset, so a replay file never depends on this switch).
func deepTier() bool { return os.Getenv("VERIF_TIER") == "thorough" }

// GenPlan derives the plan of a W-consensus run from (property, seed).
func GenPlan(prop string, seed uint64) *Plan {
	g := newGen(seed, 1)
	pr := profileFor(prop)
	p := &Plan{Version: 1, Property: prop, Seed: seed, Inner: g.u64(), World: "consensus"}
	if prop == "C01" && mix(seed, 0x756e616e)%100 < 4 {
		// the second script of the lockless attack; drawn beside g, so that every other seed keeps its plan
		p = genLocklessAttack(g, p)
		p.Ruleset = "chainedhotstuff"
		p.Knobs["llMode"] = 1
		p.PrefixScript = nil
		return p
	}
	if prop == "C01" && g.p(0.04) {
		return genLocklessAttack(g, p)
	}
	if prop == "C01" && g.p(0.04) {
		return genFHSHideAttack(g, p)
	}
	if prop == "C01" && g.p(0.08) {
		return genForgeForkAttack(g, p)
	}
	if (prop == "C01" && g.p(0.65)) || (prop == "C03" && g.p(0.35)) {
		return genTwinsScenario(g, p)
	}

	p.N = pick(g, 4, 4, 4, 4, 7, 7)
	if prop == "C09" && g.p(0.4) {
		p.N = 7 // two colluding Byzantine replicas need n >= 7
	}
	if pr.nSwarm && g.p(0.25) {
		p.N = g.rng(1, 13)
	}
	p.Ruleset = pick(g, "chainedhotstuff", "chainedhotstuff", "simplehotstuff", "fasthotstuff")
	p.Crypto = []string{"eddsa", "ecdsa", "bls12"}[g.weighted(60, 28, 12)]
	p.Cache = pick(g, 0, 0, 1, 2, 3, 5, 8, 16, 64, 100)
	if prop == "C11" {
		p.Cache = pick(g, 1, 1, 2, 3, 5, 8, 16, 64, 100) // the property is about replicas that have a cache
	}
	p.SyncVerify = true
	if ((prop == "C09" || prop == "C11") && g.p(0.4)) || g.p(0.04) {
		p.SyncVerify = false // votes verified in background goroutines, released by the scheduler in a seeded order
	}
	if !p.SyncVerify {
		if mix(p.Inner, 0x70696e72)%2 == 0 {
			p.Knobs = map[string]int{"parkInner": 1} // verifications also wait below the cache
		}
		if prop == "C11" {
			// what can make a cache wrong under concurrency: the same (invalid or valid) vote verified twice at once
			pr.acts = []string{"forgevote", "forgevote", "forgevote", "forgevote", "replay", "dupvote", "zerovote", "strayvote"}
			if p.Cache == 0 {
				p.Cache = 8
			}
		}
	}
	if (prop == "C08" || prop == "C11" || prop == "C02" || prop == "C07") && p.Ruleset != "fasthotstuff" && g.p(0.4) {
		if p.Knobs == nil {
			p.Knobs = map[string]int{}
		}
		p.Knobs["aggqc"] = 1
	}
	if prop == "C04" && p.Ruleset == "fasthotstuff" {
		pr.acts = append(append([]string{}, pr.acts...), "aggstale", "aggstale", "aggstale", "aggstale", "aggstale", "aggstale", "aggstale", "aggstale")
	}
	if prop == "C03" && p.Ruleset == "fasthotstuff" {
		// proposals carry aggregates only here; every view ends by timeout on this tree (K1), so they always do
		pr.acts = append(append([]string{}, pr.acts...), "aggforge", "aggforge", "aggforge", "aggforge", "aggforge", "aggforge", "aggforge", "aggforge")
	}
	if prop == "C07" && (p.Ruleset == "fasthotstuff" || p.Knobs["aggqc"] == 1) {
		// aggregate mode: the only way a QC reaches an honest replica's state on this tree is inside an aggregate (K1)
		pr.acts = append(append([]string{}, pr.acts...), "aggattest", "aggattest", "aggattest", "aggattest", "aggattest", "aggattest", "aggattest", "aggattest")
	}
	if prop == "C02" && (p.Ruleset == "fasthotstuff" || p.Knobs["aggqc"] == 1) {
		// aggregate certificates in use: weight the one forgery that lives inside them
		pr.acts = append(append([]string{}, pr.acts...), "aggtwin", "aggtwin", "aggtwin", "aggtwin", "aggtwin", "aggtwin", "aggswap", "aggswap", "aggswap", "aggswap", "aggswap", "aggswap")
	}
	p.Wire = pr.forceWire || g.p(0.6)
	p.Leader = pick(g, pr.leaders...)
	if p.Leader == "scripted" {
		k := g.rng(2, 12)
		for i := 0; i < k; i++ {
			p.Script = append(p.Script, g.rng(1, p.N))
		}
	}
	p.ViewDur = ViewDur{Kind: "fixed", Ms: pick(g, 40, 60, 100, 100, 150)}
	if g.p(0.25) {
		p.ViewDur = ViewDur{Kind: "dynamic", Ms: pick(g, 40, 100), MaxMs: pick(g, 400, 1000), Mul: pick(g, 1.2, 1.5, 2.0)}
	}
	switch prop {
	case "C01", "C03", "C07", "C09", "C10", "C12", "C13":
		kp := 0.12
		if prop == "C09" {
			kp = 0.3
		}
		if prop == "C10" {
			kp = 0.2
		}
		if g.p(kp) {
			// Kauri: tree dissemination and aggregation, the tree root leads every view
			if p.Knobs == nil {
				p.Knobs = map[string]int{}
			}
			p.Knobs["kauri"] = 1
			p.Knobs["bf"] = pick(g, 2, 2, 3)
			p.N = pick(g, 4, 7, 7, 10, 13)
			p.Leader = "tree-leader"
			pr.acts = append(append([]string{}, pr.acts...), "forgecontrib", "forgecontrib", "forgecontrib", "forgecontrib", "forgecontrib", "forgecontrib", "anoncontrib", "anoncontrib", "anoncontrib", "anoncontrib")
			if prop == "C09" {
				pr.byz = 0.35 // completeness at the tree root is only promised for an honest tree
			}
		}
	}
	p.Batch = pick(g, 1, 1, 2, 3)
	p.Filler = true
	p.Queue = 1 << 16 // no overflow: event loss by overflow is the business of C14 (and of the C06 profile)
	p.Links = LinkCfg{BaseUs: pick(g, 200, 1000, 3000), JitterUs: pick(g, 0, 500, 4000, 15000)}
	p.ProcUs = pick(g, 0, 0, 50, 500)
	p.UntilMs = g.rng(15, 60) * p.ViewDur.Ms
	p.MaxViews = g.rng(12, 70)
	p.MaxSteps = 60000
	if deepTier() {
		// thorough tier: a third of the plans run longer, with more faults and more injected messages
		if g.p(0.35) {
			p.UntilMs *= 3
			p.MaxViews *= 3
			p.MaxSteps = 200000
			pr.faults *= 2
			pr.inject *= 2
		}
		if g.p(0.1) && !pr.nSwarm {
			p.N = pick(g, 10, 13)
		}
	}

	if p.Crypto == "bls12" {
		// pairings are ~100x slower than Ed25519: keep these runs short
		p.MaxViews = g.rng(8, 16)
		if p.N > 4 {
			p.MaxViews = g.rng(6, 10)
		}
		if p.UntilMs > 12*p.ViewDur.Ms {
			p.UntilMs = 12 * p.ViewDur.Ms
		}
		p.MaxSteps = 4000
		if p.N > 4 {
			p.MaxSteps = 2000
		}
	}
	if pr.clients {
		p.Clients = g.rng(2, 6)
		p.Filler = g.p(0.5)
		if g.p(0.15) {
			p.Queue = 100 // the shipped default capacity: overflow under stalls
		}
		if g.p(0.5) {
			// every second client keeps 2-3 commands outstanding and never retries, like the repository's client
			if p.Knobs == nil {
				p.Knobs = map[string]int{}
			}
			p.Knobs["pipeline"] = g.rng(2, 3)
		}
	}

	faultFree := g.p(pr.faultFree)
	if !faultFree {
		if g.p(0.7) {
			p.Links.Drop = pick(g, 0.01, 0.03, 0.08, 0.2)
		}
		if g.p(0.5) {
			p.Links.Dup = pick(g, 0.01, 0.05, 0.15)
		}
		if g.p(0.4) {
			p.Links.SlowProb = pick(g, 0.01, 0.05)
			p.Links.SlowMs = g.rng(1, 5) * p.ViewDur.Ms
		}
		if g.p(0.3) {
			for i := 0; i < g.rng(1, 2); i++ {
				p.Skew = append(p.Skew, SkewNd{Node: g.rng(1, p.N), Factor: pick(g, 0.5, 0.8, 1.3, 2.0)})
			}
		}
		if g.p(0.2) {
			p.EarlyTimer = pick(g, 0.02, 0.1)
		}
		if g.p(0.3) {
			p.FetchFail = pick(g, 0.1, 0.5, 1.0)
		}
	}

	f := (p.N - 1) / 3
	budget := f // faulty replicas: Byzantine + crashed together never exceed f
	if !faultFree && f > 0 && g.p(pr.byz) {
		k := g.rng(1, f)
		ids := g.subset(p.N, k)
		for _, id := range ids {
			b := ByzNd{ID: id, Kind: pick(g, "script", "script", "twin"), Rate: pick(g, 0.2, 0.5, 1.0)}
			if b.Kind == "script" {
				na := g.rng(1, 4)
				for i := 0; i < na; i++ {
					b.Acts = append(b.Acts, pick(g, pr.acts...))
				}
			}
			p.Byz = append(p.Byz, b)
			budget--
		}
	}
	if prop == "C06" && p.Clients > 0 && mix(p.Inner, 0x72657478)%2 == 0 {
		// clients that send a command again when a replica has not answered for a view duration
		if p.Knobs == nil {
			p.Knobs = map[string]int{}
		}
		p.Knobs["retransmit"] = 1
	}
	if (prop == "C10" || prop == "C06") && mix(p.Inner, 0x6d657472)%3 == 0 {
		// throughput, consensus-latency and view-timeout measurements enabled (handlers of the experiment framework)
		if p.Knobs == nil {
			p.Knobs = map[string]int{}
		}
		p.Knobs["metrics"] = 1
	}
	if (p.Ruleset == "fasthotstuff" || p.Knobs["aggqc"] == 1) && mix(p.Inner, 0x71636f72)%2 == 0 {
		// hook H1: seeded orders of the attested QCs inside VerifyAggregateQC instead of signer order
		if p.Knobs == nil {
			p.Knobs = map[string]int{}
		}
		p.Knobs["qcorder"] = 1
	}
	if (prop == "C10" || prop == "C09" || prop == "C08") && p.Crypto == "bls12" && len(p.Byz) > 0 && p.knob("roguekey", 0) == 0 && mix(p.Inner, 0x70616462)%2 == 0 {
		// a Byzantine replica whose genuine BLS votes and timeouts carry padded signer bit fields
		p.Byz[0].Kind, p.Byz[0].Rate = "script", 1.0
		p.Byz[0].Acts = append([]string{"padbits"}, p.Byz[0].Acts...)
	}
	if prop == "C10" && mix(p.Inner, 0x6c61746d)%3 == 0 {
		// the servers emulate wide-area latencies (an option of the real server; zero delay here)
		if p.Knobs == nil {
			p.Knobs = map[string]int{}
		}
		p.Knobs["latmatrix"] = 1
	}
	if (prop == "C06" || prop == "C10" || prop == "C12" || prop == "C13") && len(p.Byz) > 0 && mix(p.Inner, 0x6e6f6261)%2 == 0 {
		// some of the blocks the Byzantine replicas make up carry no command batch at all, and the Byzantine replicas
		// serve the blocks they made up when asked for them (so an unverifiable certificate can plant one in a store)
		if p.Knobs == nil {
			p.Knobs = map[string]int{}
		}
		p.Knobs["nobatch"] = 1
	}
	if prop == "C02" && len(p.Byz) > 0 && (p.Ruleset == "fasthotstuff" || p.Knobs["aggqc"] == 1) && p.Crypto == "ecdsa" && mix(p.Inner, 0x65637265)%3 == 0 {
		// ECDSA verifies the entries of a multi-signature concurrently: aggregates replayed with altered views, entries
		// and surplus signatures, followed by other forgeries, exercise what a verification leaves behind for the next
		p.Byz[0].Kind, p.Byz[0].Acts, p.Byz[0].Rate = "script", []string{"aggreplay", "wrongblock", "subquorum"}, 1.0
		if p.EarlyTimer == 0 {
			p.EarlyTimer = 0.1
		}
	}
	if prop == "C07" && len(p.Byz) > 0 && p.Ruleset != "fasthotstuff" && p.Knobs["aggqc"] != 1 && p.knob("kauri", 0) == 0 && mix(p.Inner, 0x74717163)%4 == 0 {
		// a vote collector that keeps the certificates it forms to itself (it never proposes) and sends them inside its
		// own timeouts for the views they certify
		p.Byz = p.Byz[:1]
		p.Byz[0].Kind, p.Byz[0].Acts, p.Byz[0].Rate = "script", []string{"timeoutqc", "silent"}, 1.0
		p.Leader, p.Script = "round-robin", nil
	}
	if prop == "C07" && len(p.Byz) > 0 && (p.Ruleset == "fasthotstuff" || p.Knobs["aggqc"] == 1) && mix(p.Inner, 0x61747465)%2 == 0 {
		// a Byzantine replica whose timeouts alternately attest the newest genuine QC and nothing, on lossy links with
		// early timers: aggregates with and without that QC reach different honest replicas
		p.Byz[0].Kind, p.Byz[0].Acts, p.Byz[0].Rate = "script", []string{"aggattest"}, 1.0
		if p.EarlyTimer == 0 {
			p.EarlyTimer = 0.1
		}
		if p.Links.Drop < 0.08 {
			p.Links.Drop = 0.08
		}
	}
	if (prop == "C02" || prop == "C11") && len(p.Byz) > 0 && p.Crypto == "bls12" && mix(p.Inner, 0x67686f74)%4 == 0 {
		// BLS certificates of fewer than a quorum whose bit field is filled up with replicas that do not exist
		p.Byz[0].Kind, p.Byz[0].Acts, p.Byz[0].Rate = "script", []string{"subquorum"}, 1.0
		if p.Knobs == nil {
			p.Knobs = map[string]int{}
		}
		p.Knobs["ghost"] = 1
	}
	if (prop == "C02" || prop == "C09") && p.knob("ghost", 0) == 0 && p.knob("kauri", 0) == 0 && len(p.Byz) > 0 && p.Crypto == "bls12" && p.N >= 4 && mix(p.Inner, 0x726f6775)%2 == 0 {
		// rogue-key attack on BLS aggregation: one Byzantine replica is configured with g1^x - pk(victim) and the
		// victim's proof of possession, and forges certificates from q-2 genuine votes
		p.Byz = p.Byz[:1]
		p.Byz[0].Kind, p.Byz[0].Acts, p.Byz[0].Rate = "script", []string{"roguekey"}, 1.0
		if prop == "C09" {
			// the rogue replica's own votes (made with a key that does not match its registration) arrive view after
			// view, some of them twice
			p.Byz[0].Acts = []string{"roguekey", "dupvote"}
		}
		if p.Knobs == nil {
			p.Knobs = map[string]int{}
		}
		p.Knobs["roguekey"] = 1
		if prop == "C09" || mix(p.Inner, 0x726f6776)%3 == 0 {
			p.Knobs["roguekey"] = 2 // own key, foreign proof
		}
		if p.Leader == "scripted" || p.Leader == "fixed" {
			p.Leader, p.Script = "round-robin", nil
		}
	}
	if prop == "C02" && len(p.Byz) > 0 && (p.Ruleset == "fasthotstuff" || p.Knobs["aggqc"] == 1) && p.Crypto == "bls12" && p.knob("roguekey", 0) == 0 && p.knob("ghost", 0) == 0 && mix(p.Inner, 0x6c6f6e65)%2 == 0 {
		// BLS aggregates whose bit field names replicas that are not in the configuration (or that did not sign), with
		// an entry for each of them: one genuine signer
		p.Byz[0].Kind, p.Byz[0].Acts, p.Byz[0].Rate = "script", []string{"agglone", "aggswap"}, 1.0
	}
	if prop == "C02" && len(p.Byz) > 0 && (p.Ruleset == "fasthotstuff" || p.Knobs["aggqc"] == 1) && p.Crypto != "bls12" && mix(p.Inner, 0x61747769)%2 == 0 {
		// a Byzantine leader that does nothing but plant a relabelled twin in its aggregates, with enough early
		// timers for views to fail so that aggregates are needed
		// Two colluding replicas (n = 7): one attests the genuine newest QC, the other its twin.
		if p.N < 7 {
			p.N = 7
		}
		if len(p.Byz) < 2 {
			id := p.Byz[0].ID%p.N + 1
			p.Byz = append(p.Byz, ByzNd{ID: id})
		}
		p.Byz = p.Byz[:2]
		for i := range p.Byz {
			p.Byz[i].Kind, p.Byz[i].Acts, p.Byz[i].Rate = "script", []string{"aggtwin"}, 1.0
		}
		budget = (p.N-1)/3 - 2
		p.Leader, p.Script = "round-robin", nil
		if p.EarlyTimer == 0 {
			p.EarlyTimer = 0.1
		}
	}

	healAt := p.UntilMs
	if pr.liveness {
		// the view timer must be fixed and well above the message delay for the property's premise to hold
		p.ViewDur = ViewDur{Kind: "fixed", Ms: p.ViewDur.Ms}
		p.MaxViews = 0
		healAt = p.UntilMs * g.rng(30, 60) / 100
	}
	if !faultFree {
		nf := g.intn(pr.faults + 1)
		for i := 0; i < nf; i++ {
			at := g.intn(healAt + 1)
			switch g.weighted(34, 18, 13, 20, 15) {
			case 4:
				// a slow replica: everything it sends is late by about a view timeout for a while
				p.Faults = append(p.Faults, Fault{AtMs: at, Kind: "slownode", Node: g.rng(1, p.N), ForMs: g.rng(3, 15) * p.ViewDur.Ms,
					DelayMs: p.ViewDur.Ms * g.rng(5, 15) / 10})
			case 0:
				groups := g.partition(p.N)
				for _, b := range p.Byz {
					// split brain: a twin may sit in another partition than its sibling (listed as the negative id)
					if b.Kind == "twin" && g.p(0.6) {
						k := g.intn(len(groups))
						groups[k] = append(groups[k], -b.ID)
					}
				}
				p.Faults = append(p.Faults, Fault{AtMs: at, Kind: "partition", Groups: groups},
					Fault{AtMs: at + g.rng(1, 8)*p.ViewDur.Ms, Kind: "heal"})
			case 1:
				p.Faults = append(p.Faults, Fault{AtMs: at, Kind: "pause", Node: g.rng(1, p.N), ForMs: g.rng(1, 6) * p.ViewDur.Ms})
			case 2:
				if budget > 0 {
					budget--
					p.Faults = append(p.Faults, Fault{AtMs: at, Kind: "crash", Node: g.pickHonest(p)})
				}
			case 3:
				a, b := g.rng(1, p.N), g.rng(1, p.N)
				p.Faults = append(p.Faults, Fault{AtMs: at, Kind: "linkdown", Node: a, Peer: b, ForMs: g.rng(1, 10) * p.ViewDur.Ms})
			}
		}
	}
	victim := 0
	if pr.liveness && !faultFree && f > 0 && budget > 0 && g.p(0.35) {
		// a degrading replica: slow for a while (its messages arrive about a view late), then it crashes.
		// If the leader script lets it lead, it is the one that holds the newest certificates when it dies.
		victim = g.pickHonest(p)
		budget--
		slowAt := g.intn(healAt/2 + 1)
		p.Faults = append(p.Faults,
			Fault{AtMs: slowAt, Kind: "slownode", Node: victim, ForMs: healAt, DelayMs: p.ViewDur.Ms * g.rng(10, 16) / 10},
			Fault{AtMs: slowAt + (healAt-slowAt)*g.rng(30, 95)/100, Kind: "crash", Node: victim})
	}
	if prop == "C13" && !faultFree {
		// storing a block again must change nothing: replicas re-store blocks they already hold at seeded instants
		for i := 0; i < g.rng(2, 12); i++ {
			p.Faults = append(p.Faults, Fault{AtMs: g.intn(p.UntilMs + 1), Kind: "restore", Node: g.rng(1, p.N), ForMs: g.rng(1, 4)})
		}
	}
	sortFaults(p.Faults)

	if pr.liveness {
		p.genLiveness(g, healAt, faultFree)
		if victim != 0 && p.Leader == "scripted" && len(p.PrefixScript) > 0 {
			for i := range p.PrefixScript {
				if g.p(0.6) {
					p.PrefixScript[i] = victim
				}
			}
		}
	}
	if pr.inject > 0 {
		ni := g.rng(1, pr.inject)
		if len(p.Byz) == 0 && f > 0 && budget > 0 {
			// the sender of arbitrary messages is a Byzantine replica (within the budget of f)
			p.Byz = append(p.Byz, ByzNd{ID: g.pickNotCrashed(p), Kind: "script", Rate: 0})
		}
		for i := 0; i < ni && len(p.Byz) > 0; i++ {
			from := p.Byz[g.intn(len(p.Byz))].ID
			kind := pick(g, "propose", "propose", "vote", "newview", "timeout", "timeout", "fetch")
			if p.knob("kauri", 0) == 1 && g.p(0.35) {
				kind = "contrib"
			}
			in := Inject{AtMs: g.intn(p.UntilMs), From: from, To: g.rng(1, p.N), Kind: kind, Gen: g.u64()}
			if mix(in.Gen, 0x636f7272)%10 < 3 && kind != "fetch" && kind != "contrib" {
				in.Mode = "corrupt"
			}
			p.Inject = append(p.Inject, in)
		}
	}
	return p
}

// genLocklessAttack: the directed attack of adversary.lockless (n = 4, one Byzantine replica that leads every view
// but the second, a quiet network otherwise).
func genLocklessAttack(g *gen, p *Plan) *Plan {
	p.N = 4
	p.Ruleset = pick(g, "chainedhotstuff", "chainedhotstuff", "simplehotstuff")
	p.Crypto = pick(g, "eddsa", "eddsa", "ecdsa")
	p.Cache = pick(g, 0, 8)
	p.SyncVerify = true
	p.Wire = g.p(0.3)
	p.ViewDur = ViewDur{Kind: "fixed", Ms: 400}
	p.Batch = 1
	p.Filler = true
	p.Queue = 1 << 16
	p.Links = LinkCfg{BaseUs: 200, JitterUs: pick(g, 0, 100)}
	z := g.rng(1, 4)
	p.Byz = []ByzNd{{ID: z, Kind: "script", Acts: []string{"lockless", "silent"}, Rate: 1}}
	var rest []int
	for id := 1; id <= 4; id++ {
		if id != z {
			rest = append(rest, id)
		}
	}
	for i := len(rest) - 1; i > 0; i-- {
		j := g.intn(i + 1)
		rest[i], rest[j] = rest[j], rest[i]
	}
	// roles: C leads view 2 and ends up committing B1, V is the victim, W the bystander
	p.Knobs = map[string]int{"llC": rest[0], "llV": rest[1], "llW": rest[2]}
	p.Leader = "scripted"
	p.PrefixScript = []int{z, rest[0]}
	p.Script = []int{z}
	p.UntilMs = 300
	p.MaxViews = 12
	p.MaxSteps = 20000
	return p
}

// genForgeForkAttack: see forgeFork in adversary.go.
func genForgeForkAttack(g *gen, p *Plan) *Plan {
	p.N = pick(g, 4, 4, 7)
	p.Ruleset = pick(g, "chainedhotstuff", "simplehotstuff")
	p.Crypto = pick(g, "eddsa", "ecdsa", "ecdsa", "bls12")
	p.Cache = pick(g, 0, 8, 100)
	p.SyncVerify = true
	p.Wire = g.p(0.3)
	p.ViewDur = ViewDur{Kind: "fixed", Ms: 400}
	p.Batch = 1
	p.Filler = true
	p.Queue = 1 << 16
	p.Links = LinkCfg{BaseUs: 200, JitterUs: pick(g, 0, 100)}
	z := g.rng(1, p.N)
	p.Byz = []ByzNd{{ID: z, Kind: "script", Acts: []string{"forgefork", "silent"}, Rate: 1}}
	var rest []int
	for id := 1; id <= p.N; id++ {
		if id != z {
			rest = append(rest, id)
		}
	}
	for i := len(rest) - 1; i > 0; i-- {
		j := g.intn(i + 1)
		rest[i], rest[j] = rest[j], rest[i]
	}
	p.Knobs = map[string]int{"ffA": rest[0], "ffB": rest[1], "ffKind": g.intn(10)}
	if p.Crypto == "bls12" && mix(p.Inner, 0x67686f73)%3 == 0 {
		p.Knobs["ffKind"] = 10 // ghost signers exist for BLS bit fields only
	}
	p.Leader = "scripted"
	p.Script = []int{z}
	p.UntilMs = 60
	p.MaxViews = 12
	p.MaxSteps = 20000
	return p
}

// genFHSHideAttack: see fhsHide in adversary.go.
func genFHSHideAttack(g *gen, p *Plan) *Plan {
	p.N = 4
	p.Ruleset = "fasthotstuff"
	p.Crypto = pick(g, "eddsa", "eddsa", "ecdsa")
	p.Cache = pick(g, 0, 8)
	p.SyncVerify = true
	p.Wire = g.p(0.3)
	p.ViewDur = ViewDur{Kind: "fixed", Ms: pick(g, 20, 30, 50)}
	p.Batch = 1
	p.Filler = true
	p.Queue = 1 << 16
	p.Links = LinkCfg{BaseUs: 200, JitterUs: pick(g, 0, 100)}
	z := g.rng(1, 4)
	p.Byz = []ByzNd{{ID: z, Kind: "script", Acts: []string{"fhshide", "silent"}, Rate: 1}}
	var rest []int
	for id := 1; id <= 4; id++ {
		if id != z {
			rest = append(rest, id)
		}
	}
	for i := len(rest) - 1; i > 0; i-- {
		j := g.intn(i + 1)
		rest[i], rest[j] = rest[j], rest[i]
	}
	p.Knobs = map[string]int{"fhA": rest[0], "fhB": rest[1], "fhC": rest[2]}
	p.Leader = "scripted"
	p.PrefixScript = []int{z, z, z, rest[0]}
	p.Script = []int{z}
	p.UntilMs = 12 * p.ViewDur.Ms
	p.MaxViews = 12
	p.MaxSteps = 40000
	return p
}

// genTwinsScenario shapes a run after the Twins methodology (Bano et al.): a small cluster, one replica duplicated
// (both copies run the honest code with the same identity and key), a leader named for every view — often the
// duplicated replica — and a partition of all copies per view. Unlike the repository's lock-step Twins executor,
// delivery inside a partition group is asynchronous (seeded delays, reordering), timers are real, and views are
// entered when the protocol enters them. Short runs, so many of them.
func genTwinsScenario(g *gen, p *Plan) *Plan {
	p.N = pick(g, 4, 4, 4, 4, 7)
	p.Ruleset = pick(g, "chainedhotstuff", "chainedhotstuff", "simplehotstuff", "simplehotstuff", "fasthotstuff") // (fasthotstuff commits since D24; every view still ends by timeout, K1)
	p.Crypto = "eddsa"
	p.Cache = 0
	p.SyncVerify = true
	p.Wire = false
	p.Knobs = map[string]int{"memoVerify": 1}
	p.ViewDur = ViewDur{Kind: "fixed", Ms: 40}
	p.Batch = 1
	p.Filler = true
	p.Queue = 1 << 16
	p.Links = LinkCfg{BaseUs: 200, JitterUs: pick(g, 0, 0, 500, 4000)}
	views := g.rng(5, 14)
	f := (p.N - 1) / 3
	twins := g.subset(p.N, g.rng(1, f))
	for _, id := range twins {
		p.Byz = append(p.Byz, ByzNd{ID: id, Kind: "twin"})
	}
	addrs := []int{}
	for id := 1; id <= p.N; id++ {
		addrs = append(addrs, id)
	}
	for _, id := range twins {
		addrs = append(addrs, -id)
	}
	p.Leader = "scripted"
	for v := 1; v <= views; v++ {
		if g.p(0.45) {
			p.PrefixScript = append(p.PrefixScript, twins[g.intn(len(twins))])
		} else {
			p.PrefixScript = append(p.PrefixScript, g.rng(1, p.N))
		}
		if g.p(0.2) {
			continue // everybody connected in this view
		}
		k := 2
		if g.p(0.3) {
			k = 3
		}
		groups := make([][]int, k)
		if g.p(0.6) {
			// one side can make progress on its own: a quorum of distinct replicas in the first group
			ids := g.subset(p.N, p.N-f)
			in := map[int]bool{}
			for _, id := range ids {
				in[id] = true
			}
			for _, a := range addrs {
				switch {
				case a > 0 && in[a]:
					groups[0] = append(groups[0], a)
				case a < 0 && g.p(0.5):
					groups[0] = append(groups[0], a) // the duplicate sits with the majority
				default:
					groups[1+g.intn(k-1)] = append(groups[1+g.intn(k-1)], a)
				}
			}
		} else {
			for _, a := range addrs {
				i := g.intn(k)
				groups[i] = append(groups[i], a)
			}
		}
		p.ViewParts = append(p.ViewParts, ViewPart{View: v, Groups: groups})
	}
	// after the scenario: connected, round-robin leaders, a few more views so that what was prepared gets committed
	p.MaxViews = views + g.rng(4, 8)
	p.UntilMs = (p.MaxViews + 4) * p.ViewDur.Ms
	p.MaxSteps = 60000
	return p
}

func (g *gen) pickNotCrashed(p *Plan) int {
	for {
		id := g.rng(1, p.N)
		ok := true
		for _, f := range p.Faults {
			if f.Kind == "crash" && f.Node == id {
				ok = false
			}
		}
		if ok {
			return id
		}
	}
}

func (g *gen) pickHonest(p *Plan) int {
	for {
		id := g.rng(1, p.N)
		ok := true
		for _, b := range p.Byz {
			if b.ID == id {
				ok = false
			}
		}
		if ok {
			return id
		}
	}
}

func (g *gen) partition(n int) [][]int {
	k := 2
	if n >= 4 && g.p(0.3) {
		k = 3
	}
	groups := make([][]int, k)
	for id := 1; id <= n; id++ {
		i := g.intn(k)
		groups[i] = append(groups[i], id)
	}
	return groups
}

func sortFaults(fs []Fault) {
	for i := 1; i < len(fs); i++ {
		for j := i; j > 0 && fs[j].AtMs < fs[j-1].AtMs; j-- {
			fs[j], fs[j-1] = fs[j-1], fs[j]
		}
	}
}

// genLiveness shapes a C05 plan: whatever the prefix did, from HealAtMs on a designated quorum of
// honest, live replicas is synchronous (all links up, bounded latency far below the view timeout,
// no skew, no early timers) and every later view is led by one of its members.
func (p *Plan) genLiveness(g *gen, healAt int, faultFree bool) {
	p.HealAtMs = healAt
	if faultFree {
		p.HealAtMs = 0
	}
	crashed := map[int]bool{}
	for _, f := range p.Faults {
		if f.Kind == "crash" {
			crashed[f.Node] = true
		}
	}
	var live []int
	for id := 1; id <= p.N; id++ {
		if !crashed[id] {
			live = append(live, id)
		}
	}
	q := quorumOf(p.N)
	// the synchronous quorum: either all live replicas or exactly a quorum of them
	p.Sync = live
	if len(live) > q && g.p(0.5) {
		perm := g.r.Perm(len(live))
		p.Sync = nil
		for _, i := range perm[:q] {
			p.Sync = append(p.Sync, live[i])
		}
		sortInts(p.Sync)
	}
	if len(p.Sync) < p.N && p.Leader == "round-robin" {
		// round-robin is only covered by the property when every leader is in the quorum
		p.Leader = pick(g, "fixed", "scripted")
	}
	if p.Leader == "fixed" {
		// the fixed leader is replica 1: it must be a member
		has := false
		for _, id := range p.Sync {
			if id == 1 {
				has = true
			}
		}
		if !has {
			p.Leader = "scripted"
		}
	}
	if p.Leader == "scripted" {
		p.Script = nil
		for i := 0; i < g.rng(2, 9); i++ {
			p.Script = append(p.Script, p.Sync[g.intn(len(p.Sync))])
		}
		if !faultFree && g.p(0.7) {
			// the early views may be led by anyone, also by replicas that crash later; leaders come in runs,
			// so that one replica collects the votes of several consecutive views
			for len(p.PrefixScript) < g.rng(4, 30) {
				l := g.rng(1, p.N)
				for k := g.rng(1, 5); k > 0; k-- {
					p.PrefixScript = append(p.PrefixScript, l)
				}
			}
		}
	}
	// room for the suffix: enough views for resynchronisation and commits
	p.UntilMs = p.HealAtMs + 60*p.ViewDur.Ms
	if p.ViewDur.Kind == "dynamic" {
		p.UntilMs = p.HealAtMs + 60*p.ViewDur.MaxMs
	}
	p.MaxSteps = 400000
	p.MaxViews = 0
	p.PrefixViews = g.rng(8, 60)
	if faultFree {
		p.MaxViews = g.rng(20, 60)
	}
}

// quorumOf is the oracle's own quorum size: the smallest q with 2q-n >= f+1, f = max{f: 3f < n}.
func quorumOf(n int) int {
	f := 0
	for 3*(f+1) < n {
		f++
	}
	q := 0
	for 2*q-n < f+1 {
		q++
	}
	return q
}
