package zz_verifsim

import (
	"context"
	"fmt"
	"io"
	"strings"
	"sync"
	"testing"
	"testing/synctest"
	"time"

	"github.com/relab/hotstuff/internal/proto/clientpb"
)

// W-cmdcache: one real CommandCache; producer tasks add commands and mark batches as proposed, one or two
// consumers block in Get(ctx), cancellers cancel their contexts. After every operation synctest.Wait()
// tells which Get calls have returned. Reference: FIFO of accepted commands plus a per-client proposed mark.

func GenCmdCachePlan(seed uint64) *Plan {
	g := newGen(seed, 15)
	p := &Plan{Version: 1, Property: "C15", Seed: seed, Inner: g.u64(), World: "cmdcache", UntilMs: 1, MaxSteps: 10000}
	p.Knobs = map[string]int{"batch": g.rng(1, 4), "clients": g.rng(1, 3)}
	if mix(p.Inner, 0x7a65726f)%2 == 0 {
		p.Knobs["zero"] = 1
	}
	n := g.rng(4, 80)
	for i := 0; i < n; i++ {
		op := SmallOp{Task: g.intn(3)}
		switch g.weighted(45, 20, 18, 7, 10, 6) {
		case 5:
			op.Op, op.A, op.B = "cancelrace", g.intn(p.Knobs["clients"]), 0 // an Add wakes a blocked Get; its context is cancelled before it looks at the cache
		case 0:
			op.Op, op.A, op.B = "add", g.intn(p.Knobs["clients"]), g.intn(3) // B: 0 next seq, 1 repeat an old seq, 2 skip ahead
		case 1:
			op.Op = "get"
		case 2:
			op.Op, op.A, op.B = "mark", g.intn(6), g.rng(1, 3) // mark B commands starting at the A-th known one
		case 3:
			op.Op, op.A = "cancel", g.intn(2)
		case 4:
			op.Op, op.A = "markreturned", g.intn(4) // what a proposer does: mark a batch it was handed
		}
		p.Ops = append(p.Ops, op)
	}
	return p
}

type ccCmd struct {
	c uint32
	s uint64
	p *clientpb.Command
}

type ccGet struct {
	id       int
	cancel   context.CancelFunc
	canceled bool
	done     bool
	batch    *clientpb.Batch
	err      error
	reported bool
}

func runCmdCacheWorld(t *testing.T, p *Plan, want []string, logw io.Writer) *Result {
	res := &Result{Seed: p.Seed, Stats: newStats()}
	start := time.Now()
	func() {
		defer func() {
			if r := recover(); r != nil {
				if strings.Contains(fmt.Sprint(r), "deadlock") {
					res.Stats.Probes["bubble-leftover"]++
					return
				}
				panic(r)
			}
		}()
		synctest.Test(t, func(t *testing.T) { ccRun(p, res, logw) })
	}()
	res.WallMs = float64(time.Since(start).Microseconds()) / 1000
	return res
}

func ccRun(p *Plan, res *Result, logw io.Writer) {
	st := res.Stats
	B := p.knob("batch", 1)
	nclients := p.knob("clients", 1)
	cache := clientpb.NewCommandCache(uint32(B))
	var parkMu sync.Mutex
	parkArmed, parked := false, false
	parkCh := make(chan struct{})
	clientpb.VerifYield = func(string) {
		parkMu.Lock()
		p := parkArmed
		if p {
			parkArmed, parked = false, true
		}
		parkMu.Unlock()
		if p {
			<-parkCh
		}
	}
	defer func() { clientpb.VerifYield = nil }()
	var fp uint64
	logf := func(format string, a ...any) {
		line := fmt.Sprintf(format, a...)
		fp = mix(fp, hashStr(line))
		if logw != nil {
			_, _ = io.WriteString(logw, line+"\n")
		}
	}
	viol := func(class, format string, a ...any) {
		if res.Violation == nil {
			res.Violation = &Violation{Property: "C15", Class: class, Step: st.Steps, Detail: fmt.Sprintf(format, a...)}
			logf("VIOLATION %s %s", class, res.Violation.Detail)
		}
	}
	// reference model
	var fifo []ccCmd
	marks := map[uint32]uint64{}
	fresh := func(c ccCmd) bool { return c.s > marks[c.c] }
	nextBatch := func() ([]ccCmd, int) { // the oldest B fresh commands and the length of the examined prefix
		var out []ccCmd
		for i, c := range fifo {
			if fresh(c) {
				out = append(out, c)
				if len(out) == B {
					return out, i + 1
				}
			}
		}
		return nil, 0
	}
	nextSeq := make([]uint64, nclients)
	var known []ccCmd // every command ever added (for marking)
	var returned [][]ccCmd
	handed := map[*clientpb.Command]int{}

	var mu sync.Mutex
	var gets []*ccGet
	pending := func() []*ccGet {
		var out []*ccGet
		for _, g := range gets {
			if !g.reported {
				out = append(out, g)
			}
		}
		return out
	}
	name := func(cs []ccCmd) string {
		var sb strings.Builder
		for _, c := range cs {
			fmt.Fprintf(&sb, "(%d,%d)", c.c, c.s)
		}
		return sb.String()
	}
	settle := func() {
		synctest.Wait()
		mu.Lock()
		defer mu.Unlock()
		// which calls have returned?
		var doneOK, doneErr, waiting []*ccGet
		for _, g := range pending() {
			switch {
			case g.done && g.err == nil:
				doneOK = append(doneOK, g)
			case g.done:
				doneErr = append(doneErr, g)
			default:
				waiting = append(waiting, g)
			}
		}
		for _, g := range doneErr {
			g.reported = true
			st.Probes["c15-get-cancelled"]++
			if !g.canceled {
				viol("C15/error", "Get #%d ended with an error (%v) although its context was not cancelled", g.id, g.err)
				return
			}
		}
		// every successful return must be the reference's next batch, in some order of the callers
		for _, g := range doneOK {
			g.reported = true
			wantB, cut := nextBatch()
			if wantB == nil {
				viol("C15/batch", "Get #%d returned a batch of %d commands although fewer than %d fresh commands are waiting", g.id, len(g.batch.GetCommands()), B)
				return
			}
			got := g.batch.GetCommands()
			if len(got) != B {
				viol("C15/batch", "Get #%d returned %d commands, the batch size is %d", g.id, len(got), B)
				return
			}
			for i, c := range got {
				if c.ClientID != wantB[i].c || c.SequenceNumber != wantB[i].s {
					viol("C15/batch", "Get #%d returned (%d,%d) at position %d; the oldest fresh commands in arrival order are %s", g.id, c.ClientID, c.SequenceNumber, i, name(wantB))
					return
				}
				if c.SequenceNumber <= marks[c.ClientID] {
					viol("C15/stale", "Get #%d returned (%d,%d), at or below the proposed mark %d of its client", g.id, c.ClientID, c.SequenceNumber, marks[c.ClientID])
					return
				}
				handed[c]++
				if handed[c] > 1 {
					viol("C15/twice", "command (%d,%d) was handed out twice", c.ClientID, c.SequenceNumber)
					return
				}
			}
			fifo = fifo[cut:]
			returned = append(returned, wantB)
			st.Probes["c15-batch-compared"]++
		}
		// promptness: nobody may still be blocked while a full batch of fresh commands is waiting
		if wantB, _ := nextBatch(); wantB != nil {
			for _, g := range waiting {
				if !g.canceled {
					viol("C15/blocked", "Get #%d is still blocked although %d fresh commands are waiting: %s (batch size %d)", g.id, len(wantB), name(wantB), B)
					return
				}
			}
		}
	}

	for i, op := range p.Ops {
		if res.Violation != nil {
			break
		}
		st.Steps++
		race := false
		if op.Op == "cancelrace" {
			// only meaningful when somebody is blocked in Get
			mu.Lock()
			for _, g := range gets {
				if !g.reported && !g.canceled {
					race = true
				}
			}
			mu.Unlock()
			if !race {
				continue
			}
			parkMu.Lock()
			parkArmed = true
			parkMu.Unlock()
			op.Op, op.B = "add", 0
		}
		switch op.Op {
		case "add":
			c := uint32(op.A + 1)
			var s uint64
			switch op.B {
			case 1:
				if nextSeq[op.A] > 0 {
					s = 1 + mix(p.Inner, uint64(i))%nextSeq[op.A]
					if p.knob("zero", 0) == 1 && mix(p.Inner, 0x7a65726f, uint64(i))%3 == 0 {
						s = 0 // a client that numbers from zero: below every mark, the initial one included
						st.Faults["sequence-number-zero-added"]++
					}
					st.Faults["old-sequence-number-added"]++
				} else {
					nextSeq[op.A]++
					s = nextSeq[op.A]
				}
			case 2:
				nextSeq[op.A] += 2
				s = nextSeq[op.A]
			default:
				nextSeq[op.A]++
				s = nextSeq[op.A]
			}
			cmd := &clientpb.Command{ClientID: c, SequenceNumber: s, Data: []byte(fmt.Sprintf("%d/%d/%d", c, s, i))}
			cc := ccCmd{c, s, cmd}
			logf("op%d add (%d,%d)", i, c, s)
			if s > marks[c] {
				fifo = append(fifo, cc)
			} else {
				st.Probes["c15-add-rejected-as-proposed"]++
			}
			known = append(known, cc)
			cache.Add(cmd)
			if race {
				synctest.Wait()
				parkMu.Lock()
				isParked := parked
				parkArmed = false
				parkMu.Unlock()
				if isParked {
					// the woken Get has consumed the ready signal and has not looked at the cache yet: cancel it now
					mu.Lock()
					for _, g := range gets {
						if !g.reported && !g.canceled && !g.done {
							g.canceled = true
							g.cancel()
						}
					}
					mu.Unlock()
					st.Faults["cancel-between-wake-and-extract"]++
					parkMu.Lock()
					parked = false
					parkMu.Unlock()
					parkCh <- struct{}{}
				}
			}
			settle()
		case "get":
			mu.Lock()
			np := 0
			for _, g := range gets {
				if !g.reported {
					np++
				}
			}
			mu.Unlock()
			if np >= 2 {
				continue
			}
			ctx, cancel := context.WithCancel(context.Background())
			g := &ccGet{id: len(gets), cancel: cancel}
			mu.Lock()
			gets = append(gets, g)
			mu.Unlock()
			logf("op%d get #%d", i, g.id)
			go func() {
				b, err := cache.Get(ctx)
				mu.Lock()
				g.batch, g.err, g.done = b, err, true
				mu.Unlock()
			}()
			st.Probes["c15-get"]++
			settle()
		case "mark", "markreturned":
			var cmds []ccCmd
			if op.Op == "markreturned" {
				if len(returned) == 0 {
					continue
				}
				cmds = returned[op.A%len(returned)]
			} else {
				if len(known) == 0 {
					continue
				}
				from := op.A % len(known)
				for k := from; k < len(known) && k < from+op.B; k++ {
					cmds = append(cmds, known[k])
				}
			}
			batch := &clientpb.Batch{}
			for _, c := range cmds {
				batch.Commands = append(batch.Commands, c.p)
				if c.s > marks[c.c] {
					marks[c.c] = c.s
				}
			}
			logf("op%d proposed %s", i, name(cmds))
			st.Faults["marked-proposed"]++
			cache.Proposed(batch)
			settle()
		case "cancel":
			mu.Lock()
			var target *ccGet
			k := 0
			for _, g := range gets {
				if !g.reported && !g.canceled {
					if k == op.A {
						target = g
					}
					k++
				}
			}
			if target != nil {
				target.canceled = true
			}
			mu.Unlock()
			if target != nil {
				logf("op%d cancel get #%d", i, target.id)
				st.Faults["get-cancelled"]++
				target.cancel()
				settle()
			}
		}
	}
	// end: cancel what is still blocked; nothing fresh may have been lost
	mu.Lock()
	for _, g := range gets {
		if !g.reported && !g.canceled {
			g.canceled = true
			g.cancel()
		}
	}
	mu.Unlock()
	settle()
	if res.Violation == nil {
		// drain with fresh Gets: everything the reference still holds must come out, in order
		for k := 0; k < 200 && res.Violation == nil; k++ {
			wantB, _ := nextBatch()
			if wantB == nil {
				break
			}
			ctx, cancel := context.WithCancel(context.Background())
			g := &ccGet{id: len(gets), cancel: cancel}
			mu.Lock()
			gets = append(gets, g)
			mu.Unlock()
			go func() {
				b, err := cache.Get(ctx)
				mu.Lock()
				g.batch, g.err, g.done = b, err, true
				mu.Unlock()
			}()
			settle()
			mu.Lock()
			ok := g.reported
			mu.Unlock()
			if !ok && res.Violation == nil {
				viol("C15/lost", "the reference still holds the fresh commands %s but a new Get does not return them", name(wantB))
			}
			cancel()
			st.Probes["c15-drained-batch"]++
		}
	}
	st.Fingerprint = fp
	res.Summary = fmt.Sprintf("cmdcache batch=%d clients=%d ops=%d gets=%d batches=%d", B, nclients, len(p.Ops), len(gets), len(returned))
}
