package zz_verifsim

import (
	"encoding/binary"
	"bytes"
	"context"
	"crypto/sha256"
	"fmt"
	"sort"

	"github.com/relab/hotstuff"
	"github.com/relab/hotstuff/core"
	"github.com/relab/hotstuff/core/eventloop"
	"github.com/relab/hotstuff/security/blockchain"
	"github.com/relab/hotstuff/security/cert"
	"github.com/relab/hotstuff/security/crypto"
)

// ---- auditor: the repository's verification functions, on a replica that knows every block ----------

// regSender serves block fetches from the simulator's registry and sends nothing.
type regSender struct{ w *World }

func (regSender) NewView(hotstuff.ID, hotstuff.SyncInfo) error { return nil }
func (regSender) Vote(hotstuff.ID, hotstuff.PartialCert) error { return nil }
func (regSender) Timeout(hotstuff.TimeoutMsg)                  {}
func (regSender) Propose(*hotstuff.ProposeMsg)                 {}
func (s regSender) Sub([]hotstuff.ID) (core.Sender, error)     { return s, nil }
func (s regSender) RequestBlock(_ context.Context, h hotstuff.Hash) (*hotstuff.Block, bool) {
	b := s.w.reg.get(h)
	return b, b != nil
}

type auditor struct {
	w      *World
	cached *cert.Authority // with the plan's cache capacity (or 8 if the plan has none)
	plain  *cert.Authority // no cache
}

func newAuditor(w *World) (*auditor, error) {
	mk := func(cache uint) (*cert.Authority, error) {
		src := w.nodes[0]
		for _, nd := range w.nodes {
			if nd.honest && !nd.twin {
				// the auditor sees the world as an honest replica does (a replica trusts its own key); the last
				// honest one, because the rogue-key plans pick the first as the victim whose proof is re-used
				src = nd
			}
		}
		opts := []core.RuntimeOption{core.WithCache(cache)}
		if src.cfg.HasAggregateQC() {
			opts = append(opts, core.WithAggregateQC())
		}
		cfg := core.NewRuntimeConfig(src.id, w.keys.priv[src.id], opts...)
		for id := 1; id <= w.plan.N; id++ {
			ri, _ := src.cfg.ReplicaInfo(hotstuff.ID(id))
			cp := *ri
			cfg.AddReplica(&cp)
		}
		lg := &simLogger{nd: src}
		el := eventloop.New(lg, 16)
		bc := blockchain.New(el, lg, regSender{w})
		base, err := crypto.New(cfg, w.plan.Crypto)
		if err != nil {
			return nil, err
		}
		return cert.NewAuthority(cfg, bc, base), nil
	}
	a := &auditor{w: w}
	var err error
	c := uint(w.plan.Cache)
	if c == 0 {
		c = 8
	}
	if a.cached, err = mk(c); err != nil {
		return nil, err
	}
	if a.plain, err = mk(0); err != nil {
		return nil, err
	}
	return a, nil
}

// verdicts runs f on both auditors under recover; ok reports acceptance, panicked a crash.
func (a *auditor) each(f func(au *cert.Authority) error) (acceptCached, acceptPlain bool, panicked string) {
	run := func(au *cert.Authority) (ok bool) {
		defer func() {
			if r := recover(); r != nil {
				panicked = fmt.Sprint(r)
				ok = false
			}
		}()
		return f(au) == nil
	}
	return run(a.cached), run(a.plain), panicked
}

// ---- C02: accepted certificates carry a quorum of distinct valid signatures --------------------------

func monC02(w *World) {
	au, err := newAuditor(w)
	if err != nil {
		panic("harness: auditor: " + err.Error())
	}
	w.hooks.atEnd = append(w.hooks.atEnd, func() { assembledChecks(w) })
	seenQC := map[string]bool{}
	key := func(kind string, b []byte, extra uint64) string {
		h := sha256.Sum256(b)
		return fmt.Sprintf("%s/%x/%d", kind, h[:12], extra)
	}
	checkQC := func(qc hotstuff.QuorumCert, honestOrigin bool, origin string) {
		k := key("qc", qc.ToBytes(), 0)
		if honestOrigin {
			k += "/h"
		}
		if seenQC[k] {
			return
		}
		seenQC[k] = true
		backed, why := w.orc.qcBacked(qc)
		c, p, pan := au.each(func(x *cert.Authority) error { return x.VerifyQuorumCert(qc) })
		w.probe("c02-qc-checked")
		if pan != "" {
			w.probe("c02-verify-panicked")
		}
		if (c || p) && !backed {
			w.violate("C02", "C02/sound-qc", nil, "VerifyQuorumCert accepts (cache:%v plain:%v) a certificate for %s@%d from %s that is not backed by a quorum: %s",
				c, p, w.reg.sym(qc.BlockHash()), qc.View(), origin, why)
		}
		if backed {
			w.probe("c02-qc-backed")
		} else {
			w.probe("c02-qc-unbacked")
		}
		if honestOrigin && backed && w.plan.N >= 2 && !(c && p) && pan == "" {
			w.violate("C02", "C02/complete-qc", nil, "a certificate for %s@%d assembled by honest %s from a real quorum is rejected (cache:%v plain:%v)",
				w.reg.sym(qc.BlockHash()), qc.View(), origin, c, p)
		}
	}
	checkTC := func(tc hotstuff.TimeoutCert, honestOrigin bool, origin string) {
		if tc.Signature() == nil && tc.View() != 0 {
			// absent signature: acceptance would be unsound; a panic is C10's matter
			c, p, _ := au.each(func(x *cert.Authority) error { return x.VerifyTimeoutCert(tc) })
			if c || p {
				w.violate("C02", "C02/sound-tc", nil, "VerifyTimeoutCert accepts a certificate for view %d without a signature", tc.View())
			}
			return
		}
		var sb []byte
		if tc.Signature() != nil {
			sb = tc.Signature().ToBytes()
		}
		k := key("tc", sb, uint64(tc.View()))
		if honestOrigin {
			k += "/h"
		}
		if seenQC[k] {
			return
		}
		seenQC[k] = true
		backed, why := w.orc.tcBacked(tc)
		c, p, pan := au.each(func(x *cert.Authority) error { return x.VerifyTimeoutCert(tc) })
		w.probe("c02-tc-checked")
		if (c || p) && !backed {
			w.violate("C02", "C02/sound-tc", nil, "VerifyTimeoutCert accepts (cache:%v plain:%v) a certificate for view %d from %s that is not backed by a quorum: %s", c, p, tc.View(), origin, why)
		}
		if honestOrigin && backed && w.plan.N >= 2 && !(c && p) && pan == "" {
			w.violate("C02", "C02/complete-tc", nil, "a timeout certificate for view %d assembled by honest %s from a real quorum is rejected (cache:%v plain:%v)", tc.View(), origin, c, p)
		}
	}
	checkAgg := func(agg hotstuff.AggregateQC, honestOrigin bool, origin string) {
		if agg.Sig() == nil {
			return // absent signature: pinned panic (K2), C10's matter
		}
		var qb []byte
		for id := 1; id <= w.plan.N; id++ {
			if qc, ok := agg.QCs()[hotstuff.ID(id)]; ok {
				qb = append(qb, byte(id))
				qb = append(qb, qc.ToBytes()...)
			}
		}
		k := key("agg", append(qb, agg.Sig().ToBytes()...), uint64(agg.View()))
		if honestOrigin {
			k += "/h"
		}
		if seenQC[k] {
			return
		}
		seenQC[k] = true
		backed, highView, haveHigh, why := w.orc.aggBacked(agg)
		var hc, hp hotstuff.QuorumCert
		c, p, pan := false, false, ""
		func() {
			defer func() {
				if r := recover(); r != nil {
					pan = fmt.Sprint(r)
				}
			}()
			var e1, e2 error
			hc, e1 = au.cached.VerifyAggregateQC(agg)
			hp, e2 = au.plain.VerifyAggregateQC(agg)
			c, p = e1 == nil, e2 == nil
		}()
		w.probe("c02-aggqc-checked")
		if (c || p) && !backed {
			w.violate("C02", "C02/sound-aggqc", nil, "VerifyAggregateQC accepts (cache:%v plain:%v) an aggregate for view %d from %s that is not backed: %s", c, p, agg.View(), origin, why)
			return
		}
		if c && p && backed {
			// the reported high QC: the highest-view backed QC among those attested by valid signers
			for _, h := range []hotstuff.QuorumCert{hc, hp} {
				if ok, why := w.orc.qcBacked(h); !ok {
					w.violate("C02", "C02/high-qc", nil, "VerifyAggregateQC reports a high QC %s@%d that is not backed: %s", w.reg.sym(h.BlockHash()), h.View(), why)
				} else if haveHigh && h.View() != highView {
					w.violate("C02", "C02/high-qc", nil, "VerifyAggregateQC reports a high QC of view %d but the highest backed QC attested is of view %d", h.View(), highView)
				}
			}
		}
		if honestOrigin && backed && haveHigh && w.plan.N >= 2 && !(c && p) && pan == "" {
			w.violate("C02", "C02/complete-aggqc", nil, "an aggregate certificate for view %d assembled by honest %s from a real quorum is rejected (cache:%v plain:%v)", agg.View(), origin, c, p)
		}
	}
	checkSI := func(si hotstuff.SyncInfo, honest bool, origin string) {
		if qc, ok := si.QC(); ok {
			checkQC(qc, honest, origin)
		}
		if tc, ok := si.TC(); ok {
			checkTC(tc, honest, origin)
		}
		if agg, ok := si.AggQC(); ok {
			checkAgg(agg, honest, origin)
		}
	}
	// what a replica's own verification says about a timeout certificate that nobody backs (its answer may depend on its
	// own state, which the auditor does not share)
	w.hooks.onHandle = append(w.hooks.onHandle, func(nd *Node, ev any) {
		if !nd.honest || w.viol != nil {
			return
		}
		var si hotstuff.SyncInfo
		switch e := ev.(type) {
		case hotstuff.NewViewMsg:
			si = e.SyncInfo
		case hotstuff.TimeoutMsg:
			si = e.SyncInfo
		default:
			return
		}
		tc, ok := si.TC()
		if !ok || tc.View() == 0 {
			return
		}
		if backed, why := w.orc.tcBacked(tc); !backed {
			w.probe("c02-unbacked-tc-at-replica")
			accepted := false
			func() {
				defer func() { _ = recover() }()
				accepted = nd.auth.VerifyTimeoutCert(tc) == nil
			}()
			if accepted {
				w.violate("C02", "C02/sound-tc", nd, "%s's own VerifyTimeoutCert accepts a certificate for view %d that is not backed by a quorum: %s", nd, tc.View(), why)
			}
		}
	})
	var pool []hotstuff.QuorumCert
	var poolTC []hotstuff.TimeoutCert
	w.hooks.onSend = append(w.hooks.onSend, func(from *Node, to hotstuff.ID, m *Msg) {
		if w.viol != nil {
			return
		}
		// a certificate in an honest replica's own output that it assembled itself: the new-view it sends
		// after collecting votes, the sync info after collecting timeouts. Relayed certificates were accepted
		// by its own verification first, so for them the completeness direction is implied by soundness.
		honest := from != nil && from.honest && !m.forged
		origin := "n?"
		if from != nil {
			origin = from.String()
		}
		switch v := m.val.(type) {
		case hotstuff.ProposeMsg:
			if v.Block != nil {
				checkQC(v.Block.QuorumCert(), honest, origin)
				if honest && len(pool) < 64 {
					pool = append(pool, v.Block.QuorumCert())
				}
			}
			if v.AggregateQC != nil {
				checkAgg(*v.AggregateQC, honest, origin)
			}
		case hotstuff.NewViewMsg:
			checkSI(v.SyncInfo, honest, origin)
			if tc, ok := v.SyncInfo.TC(); ok && honest && len(poolTC) < 32 {
				poolTC = append(poolTC, tc)
			}
		case hotstuff.TimeoutMsg:
			checkSI(v.SyncInfo, honest, origin)
		}
	})
	// dense sampling of the quantifier: every structural mutation of certificates seen in honest traffic
	w.hooks.atEnd = append(w.hooks.atEnd, func() {
		if w.viol != nil {
			return
		}
		adv := w.adv
		for i, qc := range pool {
			if i >= 12 || qc.Signature() == nil {
				continue
			}
			b := w.reg.get(qc.BlockHash())
			if b == nil {
				continue
			}
			q := w.orc.q
			muts := map[string]hotstuff.QuorumCert{
				"relabel-view":  hotstuff.NewQuorumCert(qc.Signature(), qc.View()+1, qc.BlockHash()),
				"relabel-view0": hotstuff.NewQuorumCert(qc.Signature(), 0, qc.BlockHash()),
				"other-block":   hotstuff.NewQuorumCert(qc.Signature(), qc.View(), b.Parent()),
				"genesis-view":  hotstuff.NewQuorumCert(qc.Signature(), qc.View(), hotstuff.GetGenesis().Hash()),
				"empty-sig":     hotstuff.NewQuorumCert(emptySig(w.plan.Crypto), qc.View(), qc.BlockHash()),
			}
			if s := truncSig(qc.Signature(), 1+qc.Signature().Participants().Len()-q); s != nil {
				muts["sub-quorum"] = hotstuff.NewQuorumCert(s, qc.View(), qc.BlockHash())
			}
			if s := relabelSig(qc.Signature(), w.plan.N); s != nil {
				muts["swapped-ids"] = hotstuff.NewQuorumCert(s, qc.View(), qc.BlockHash())
			}
			if s := permuteSig(qc.Signature()); s != nil {
				muts["permuted-ids"] = hotstuff.NewQuorumCert(s, qc.View(), qc.BlockHash())
			}
			for k := 2; k < q; k++ {
				// fewer than a quorum of distinct signers, repeated in rotation: a b a b ..., a b c a ...
				if r := rotateSig(qc.Signature(), k, q); r != nil {
					muts[fmt.Sprintf("rotated-%d-signers", k)] = hotstuff.NewQuorumCert(r, qc.View(), qc.BlockHash())
				}
			}
			if s := truncSig(qc.Signature(), qc.Signature().Participants().Len()-1); s != nil {
				if r := repeatSig(s, q); r != nil {
					muts["repeated-signer"] = hotstuff.NewQuorumCert(r, qc.View(), qc.BlockHash())
				}
				if r := repeatSig(s, q+1); r != nil {
					muts["repeated-signer+1"] = hotstuff.NewQuorumCert(r, qc.View(), qc.BlockHash())
				}
			}
			for _, name := range sortedKeys(muts) {
				m := muts[name]
				w.fault("c02-mutation:" + name)
				checkQC(m, false, "mutation "+name)
				if w.viol != nil {
					w.viol.Class += ":" + name
					return
				}
			}
		}
		for i, tc := range poolTC {
			if i >= 8 || tc.Signature() == nil || tc.View() == 0 {
				continue
			}
			q := w.orc.q
			muts := map[string]hotstuff.TimeoutCert{
				"relabel-view": hotstuff.NewTimeoutCert(tc.Signature(), tc.View()+1),
				"empty-sig":    hotstuff.NewTimeoutCert(emptySig(w.plan.Crypto), tc.View()),
			}
			if s := truncSig(tc.Signature(), 1+tc.Signature().Participants().Len()-q); s != nil {
				muts["sub-quorum"] = hotstuff.NewTimeoutCert(s, tc.View())
			}
			if s := truncSig(tc.Signature(), tc.Signature().Participants().Len()-1); s != nil {
				if r := repeatSig(s, q); r != nil {
					muts["repeated-signer"] = hotstuff.NewTimeoutCert(r, tc.View())
				}
			}
			for k := 2; k < q; k++ {
				if r := rotateSig(tc.Signature(), k, q); r != nil {
					muts[fmt.Sprintf("rotated-%d-signers", k)] = hotstuff.NewTimeoutCert(r, tc.View())
				}
			}
			for _, name := range sortedKeys(muts) {
				m := muts[name]
				w.fault("c02-mutation-tc:" + name)
				checkTC(m, false, "mutation "+name)
				if w.viol != nil {
					w.viol.Class += ":" + name
					return
				}
			}
		}
		_ = adv
	})
}

// ---- C03: one vote per view, only for well-formed leader proposals ----------------------------------

func monC03(w *World) {
	type vs struct {
		voted      map[hotstuff.View]hotstuff.Hash
		maxVoted   hotstuff.View
		maxTimeout hotstuff.View
		anyTimeout bool
		anyVote    bool
		next       int
		leaders    map[hotstuff.View]hotstuff.ID // answers of its own rotation during the current step
	}
	st := map[*Node]*vs{}
	get := func(nd *Node) *vs {
		if st[nd] == nil {
			st[nd] = &vs{voted: map[hotstuff.View]hotstuff.Hash{}, leaders: map[hotstuff.View]hotstuff.ID{}}
		}
		return st[nd]
	}
	w.hooks.onLeader = append(w.hooks.onLeader, func(nd *Node, v hotstuff.View, id hotstuff.ID) {
		if nd.honest {
			get(nd).leaders[v] = id
		}
	})
	check := func(nd *Node, rec signRec) {
		s := get(nd)
		if len(rec.msg) == 8 {
			v := hotstuff.View(leU64(rec.msg))
			if !s.anyTimeout || v > s.maxTimeout {
				s.maxTimeout, s.anyTimeout = v, true
			}
			w.probe("c03-timeout-signed")
			return
		}
		h := hotstuff.Hash(sha256.Sum256(rec.msg))
		b := w.reg.get(h)
		if b == nil {
			if lb, ok := nd.bc.LocalGet(h); ok {
				b = lb
				w.reg.add(lb, nd)
			}
		}
		if b == nil {
			w.probe("c03-other-signature") // e.g. the aggregate-rule message signature
			return
		}
		w.probe("c03-vote-signed")
		sym := w.reg.sym(b.Hash())
		// (1) from the designated leader of the block's view, by the replica's own rotation
		var sender hotstuff.ID
		if ev, ok := nd.curEvent.(hotstuff.ProposeMsg); ok && ev.Block != nil && ev.Block.Hash() == b.Hash() {
			sender = ev.ID
		} else {
			sender = nd.id // built it itself
			if b.Proposer() != nd.id {
				sender = 0
			}
		}
		leader, known := s.leaders[b.View()]
		if !known {
			switch w.plan.Leader {
			case "round-robin", "fixed", "scripted", "":
				leader, known = nd.leader.inner.GetLeader(b.View()), true
			}
		}
		if known && sender != leader {
			w.violate("C03", "C03/leader", nd, "%s signed a vote for %s (view %d) received from replica %d, but its leader for that view is %d", nd, sym, b.View(), sender, leader)
			return
		}
		if _, isProp := nd.curEvent.(hotstuff.ProposeMsg); isProp && known && !w.kauri() && sender != nd.id {
			// ... and "received from" means the connection it came over, whatever the message says about itself
			if from := nd.blockSenders[b.Hash()]; len(from) > 0 && !from[leader] {
				w.violate("C03", "C03/leader", nd, "%s signed a vote for %s (view %d), which it was handed only by %v; its leader for that view, %d, never sent it", nd, sym, b.View(), idsOf(from), leader)
				return
			}
		}
		if _, isProp := nd.curEvent.(hotstuff.ProposeMsg); isProp && known && w.kauri() && sender != nd.id {
			// in the dissemination tree a proposal is handed on by other replicas, so the connection says nothing; what can
			// be said is who made the block: an honest leader's proposal is a block that leader put together itself
			if lp := w.primary(int(leader)); lp != nil && lp.honest {
				if bi := w.reg.byHash[b.Hash()]; bi != nil && bi.by != nil && bi.by != lp {
					w.violate("C03", "C03/leader@kauri-relay", nd, "%s signed a vote for %s (view %d) in the name of leader %d, which never made that block (it comes from %s)", nd, sym, b.View(), leader, bi.by)
					return
				}
			}
		}
		// (2) carries a valid certificate
		if ok, why := w.orc.qcBacked(b.QuorumCert()); !ok {
			w.violate("C03", "C03/qc", nd, "%s signed a vote for %s whose certificate is not backed by a quorum: %s", nd, sym, why)
			return
		}
		// (3) directly extends the certified block
		if b.Parent() != b.QuorumCert().BlockHash() {
			w.violate("C03", "C03/parent", nd, "%s signed a vote for %s whose parent %s is not the block its certificate certifies (%s)", nd, sym, w.reg.sym(b.Parent()), w.reg.sym(b.QuorumCert().BlockHash()))
			return
		}
		if cb := w.reg.get(b.QuorumCert().BlockHash()); cb != nil && b.View() <= cb.View() {
			w.violate("C03", "C03/parent", nd, "%s signed a vote for %s of view %d, not higher than the view %d of the block it certifies", nd, sym, b.View(), cb.View())
			return
		}
		// (4) at most one block per view
		if prev, ok := s.voted[b.View()]; ok && prev != b.Hash() {
			w.violate("C03", "C03/twice", nd, "%s signed votes for two blocks of view %d: %s and %s", nd, b.View(), w.reg.sym(prev), sym)
			return
		} else if ok {
			w.violate("C03", "C03/twice", nd, "%s signed %s of view %d twice", nd, sym, b.View())
			return
		}
		// (5) strictly increasing views, never at or below a view it signed a timeout for
		if s.anyVote && b.View() <= s.maxVoted {
			w.violate("C03", "C03/order", nd, "%s signed a vote in view %d after voting in view %d", nd, b.View(), s.maxVoted)
			return
		}
		if s.anyTimeout && b.View() <= s.maxTimeout {
			w.violate("C03", "C03/after-timeout", nd, "%s signed a vote in view %d after signing a timeout for view %d", nd, b.View(), s.maxTimeout)
			return
		}
		s.voted[b.View()] = b.Hash()
		s.maxVoted, s.anyVote = b.View(), true
	}
	w.hooks.afterStep = append(w.hooks.afterStep, func(nd *Node) {
		if !nd.honest {
			return
		}
		s := get(nd)
		for ; s.next < len(w.orc.signs); s.next++ {
			rec := w.orc.signs[s.next]
			if rec.nd == nd && w.viol == nil {
				check(nd, rec)
			}
		}
		for k := range s.leaders {
			delete(s.leaders, k)
		}
	})
}

// ---- C11: the cache never changes a verdict --------------------------------------------------------

// assembledChecks drives the Authority's own assembly functions with parts that do not belong together (honest
// signatures taken from the run: a quorum less one of votes for a block plus one vote for its parent relabelled as a
// vote for the block; likewise timeout signatures of two views) and verifies the result at the assembling Authority
// itself, once with and once without a cache. The result has fewer than a quorum of valid signatures: a verdict
// "accept" is a C02 violation, and different verdicts with and without a cache a C11 violation.
func assembledChecks(w *World) {
	if w.viol != nil || w.assembledDone || w.plan.N < 4 {
		return
	}
	w.assembledDone = true
	au, err := newAuditor(w)
	if err != nil {
		return
	}
	q := w.orc.q
	type part struct {
		id  hotstuff.ID
		sig hotstuff.QuorumSignature
	}
	signersOf := func(msg []byte) []part {
		var out []part
		seen := map[hotstuff.ID]bool{}
		for _, r := range w.orc.signs {
			if !seen[r.nd.id] && bytes.Equal(r.msg, msg) && r.sig != nil && r.sig.Participants().Len() == 1 {
				seen[r.nd.id] = true
				out = append(out, part{r.nd.id, r.sig})
			}
		}
		return out
	}
	report := func(what string, c, p bool) {
		w.probe("assembled-certificate-checked")
		if c != p {
			w.violate("C11", "C11/assembled/accept-vs-reject", nil, "%s: the assembling replica's own verification says cached:%v uncached:%v", what, verdictB(c), verdictB(p))
		}
		if c || p {
			w.violate("C02", "C02/sound-qc:assembled", nil, "%s is accepted (cache:%v plain:%v) although fewer than a quorum of its signatures are valid for it", what, c, p)
		}
	}
	done := 0
	for _, bi := range w.reg.order {
		if done >= 6 || w.viol != nil {
			break
		}
		b := bi.b
		pb := w.reg.get(b.Parent())
		if bi.idx == 0 || pb == nil || pb.Hash() == hotstuff.GetGenesis().Hash() {
			continue
		}
		mine, other := signersOf(b.ToBytes()), signersOf(pb.ToBytes())
		if len(mine) < q-1 {
			continue
		}
		var parts []hotstuff.PartialCert
		used := map[hotstuff.ID]bool{}
		for _, v := range mine[:q-1] {
			parts = append(parts, hotstuff.NewPartialCert(v.sig, b.Hash()))
			used[v.id] = true
		}
		found := false
		for _, v := range other {
			if !used[v.id] {
				parts = append(parts, hotstuff.NewPartialCert(v.sig, b.Hash()))
				found = true
				break
			}
		}
		if !found {
			continue
		}
		done++
		c, p, _ := au.each(func(x *cert.Authority) error {
			qc, err := x.CreateQuorumCert(b, parts)
			if err != nil {
				return err
			}
			return x.VerifyQuorumCert(qc)
		})
		report(fmt.Sprintf("a certificate for %s assembled from %d votes for it and one vote for its parent", bi.sym, q-1), c, p)
	}
	// the same signature bytes, divided differently among the same signers: the whole byte string under the first
	// signer, nothing under the others. A replica without a cache rejects it; one that has just verified the genuine
	// certificate must not answer differently.
	done = 0
	for _, bi := range w.reg.order {
		if done >= 4 || w.viol != nil {
			break
		}
		qc := bi.b.QuorumCert()
		if qc.Signature() == nil {
			continue
		}
		rs := resplitSig(qc.Signature())
		if rs == nil {
			continue
		}
		done++
		for _, alt := range []struct {
			name string
			sig  hotstuff.QuorumSignature
		}{{"resplit", rs}, {"retype", retypeSig(qc.Signature())}, {"padded", padSig(qc.Signature())}} {
			if alt.sig == nil || w.viol != nil {
				continue
			}
			m := hotstuff.NewQuorumCert(alt.sig, qc.View(), qc.BlockHash())
			c, p, _ := au.each(func(x *cert.Authority) error {
				if err := x.VerifyQuorumCert(qc); err != nil {
					return nil // the genuine certificate does not verify here (e.g. a Byzantine leader's block): nothing to compare
				}
				if x.VerifyQuorumCert(m) == nil {
					return nil
				}
				return fmt.Errorf("rejected")
			})
			w.probe(alt.name + "-certificate-checked")
			if c != p {
				what := "whose signature bytes are divided differently among the same signers"
				if alt.name == "retype" {
					what = "whose signatures are presented as those of another scheme (same signers, same bytes)"
				}
				if alt.name == "padded" {
					what = "one of whose signatures has bytes appended"
				}
				w.violate("C11", "C11/"+alt.name+"/accept-vs-reject", nil, "a certificate for %s %s: cached:%v uncached:%v right after the genuine certificate was verified", w.reg.sym(qc.BlockHash()), what, verdictB(c), verdictB(p))
			}
		}
	}
	// a verified certificate's signature presented again as a batch signature in which every signer's message is
	// the certified block: the two kinds of verification must not share cache entries
	done = 0
	for _, bi := range w.reg.order {
		if done >= 3 || w.viol != nil {
			break
		}
		qc := bi.b.QuorumCert()
		cb := w.reg.get(qc.BlockHash())
		if qc.Signature() == nil || cb == nil || qc.Signature().Participants().Len() < 2 {
			continue
		}
		done++
		batch := map[hotstuff.ID][]byte{}
		qc.Signature().Participants().ForEach(func(id hotstuff.ID) { batch[id] = cb.ToBytes() })
		c, p, _ := au.each(func(x *cert.Authority) error {
			if err := x.Verify(qc.Signature(), cb.ToBytes()); err != nil {
				return nil
			}
			return x.BatchVerify(qc.Signature(), batch)
		})
		w.probe("verify-then-batchverify-checked")
		if c != p {
			w.violate("C11", "C11/verify-then-batch/accept-vs-reject", nil, "the signature of the certificate for %s, verified over the block and then presented as a batch signature with that block as every signer's message: cached:%v uncached:%v", w.reg.sym(qc.BlockHash()), verdictB(c), verdictB(p))
		}
	}
	// after a batch signature verified: each of its parts, presented alone with another signer's message of that batch
	if nd := w.nodes[len(w.nodes)-1]; nd != nil && w.viol == nil && len(w.nodes) >= 3 {
		batch := map[hotstuff.ID][]byte{}
		var sigs []hotstuff.QuorumSignature
		var order []hotstuff.ID
		// descending signer order: not the order of the sorted batch keys
		for i := len(w.nodes) - 1; i >= 0 && len(sigs) < 3; i-- {
			x := w.nodes[i]
			if x.raw == nil || batch[x.id] != nil {
				continue
			}
			m := []byte(fmt.Sprintf("batch message of replica %d", x.id))
			if sig, err := x.raw.Sign(m); err == nil && sig != nil {
				batch[x.id], sigs, order = m, append(sigs, sig), append(order, x.id)
			}
		}
		if len(sigs) == 3 {
			if comb, err := nd.raw.Combine(sigs...); err == nil && comb != nil {
				for i := range sigs {
					j := (i + 1) % len(sigs)
					c, p, _ := au.each(func(x *cert.Authority) error {
						if err := x.BatchVerify(comb, batch); err != nil {
							return nil
						}
						return x.Verify(sigs[i], batch[order[j]])
					})
					w.probe("batch-then-part-checked")
					if c != p {
						w.violate("C11", "C11/batch-then-part/accept-vs-reject", nil, "after a batch signature of %v verified, the part signed by %d presented alone with the message of %d: cached:%v uncached:%v", order, order[i], order[j], verdictB(c), verdictB(p))
						break
					}
				}
			}
		}
	}
	// a single signature over the very bytes the batch digest is built from (signer id, length, message), verified
	// as a plain signature and then presented as that signer's batch signature over the message alone
	if nd := w.nodes[len(w.nodes)-1]; nd != nil && w.viol == nil {
		m := []byte("some message of the protocol")
		M := append(append(append([]byte(nil), nd.id.ToBytes()...), hotstuff.View(len(m)).ToBytes()...), m...)
		if sig, err := nd.raw.Sign(M); err == nil && sig != nil {
			c, p, _ := au.each(func(x *cert.Authority) error {
				if err := x.Verify(sig, M); err != nil {
					return nil
				}
				return x.BatchVerify(sig, map[hotstuff.ID][]byte{nd.id: m})
			})
			w.probe("verify-then-batchverify-crafted-checked")
			if c != p {
				w.violate("C11", "C11/verify-then-batch/accept-vs-reject", nil, "a signature of %s over (id, length, m), verified as a plain signature and then presented as its batch signature over m: cached:%v uncached:%v", nd, verdictB(c), verdictB(p))
			}
		}
	}
	// timeout certificates: signatures over two different views
	views := map[hotstuff.View][]part{}
	var order []hotstuff.View
	seen := map[[2]uint64]bool{}
	for _, r := range w.orc.signs {
		if len(r.msg) != 8 || r.sig == nil || r.sig.Participants().Len() != 1 {
			continue
		}
		v := hotstuff.View(binary.LittleEndian.Uint64(r.msg))
		if seen[[2]uint64{uint64(v), uint64(r.nd.id)}] {
			continue
		}
		seen[[2]uint64{uint64(v), uint64(r.nd.id)}] = true
		if len(views[v]) == 0 {
			order = append(order, v)
		}
		views[v] = append(views[v], part{r.nd.id, r.sig})
	}
	done = 0
	for i, v := range order {
		if done >= 4 || w.viol != nil || i+1 >= len(order) {
			break
		}
		v2 := order[i+1]
		if len(views[v]) < q-1 || v == 0 {
			continue
		}
		var tos []hotstuff.TimeoutMsg
		used := map[hotstuff.ID]bool{}
		for _, x := range views[v][:q-1] {
			tos = append(tos, hotstuff.TimeoutMsg{ID: x.id, View: v, ViewSignature: x.sig})
			used[x.id] = true
		}
		found := false
		for _, x := range views[v2] {
			if !used[x.id] {
				tos = append(tos, hotstuff.TimeoutMsg{ID: x.id, View: v, ViewSignature: x.sig})
				found = true
				break
			}
		}
		if !found {
			continue
		}
		done++
		c, p, _ := au.each(func(x *cert.Authority) error {
			tc, err := x.CreateTimeoutCert(v, tos)
			if err != nil {
				return err
			}
			return x.VerifyTimeoutCert(tc)
		})
		report(fmt.Sprintf("a timeout certificate for view %d assembled from %d signatures over that view and one over view %d", v, q-1, v2), c, p)
	}
}

func verdictB(ok bool) string {
	if ok {
		return "accept"
	}
	return "reject"
}

func monC11(w *World) {
	w.hooks.atEnd = append(w.hooks.atEnd, func() { assembledChecks(w) })
	w.hooks.onVerify = append(w.hooks.onVerify, func(nd *Node, op string, sig hotstuff.QuorumSignature, msg []byte, batch map[hotstuff.ID][]byte, err error) {
		if nd.cfg.CacheSize() == 0 || w.viol != nil {
			return
		}
		var shadow error
		func() {
			defer func() {
				if r := recover(); r != nil {
					shadow = fmt.Errorf("panic: %v", r)
				}
			}()
			if op == "verify" {
				shadow = nd.raw.Verify(sig, msg)
			} else {
				shadow = nd.raw.BatchVerify(sig, batch)
			}
		}()
		w.probe("c11-" + op + "-compared")
		if (err == nil) != (shadow == nil) {
			dir := "accept-vs-reject"
			if err != nil {
				dir = "reject-vs-accept"
			}
			w.violate("C11", "C11/"+op+"/"+dir, nd, "%s: cached %s says %v, uncached says %v (capacity %d)", nd, op, verdict(err), verdict(shadow), nd.cfg.CacheSize())
		}
	})
}

func verdict(err error) string {
	if err == nil {
		return "valid"
	}
	return "invalid"
}

func sortedKeys[V any](m map[string]V) []string {
	ks := make([]string, 0, len(m))
	for k := range m {
		ks = append(ks, k)
	}
	sort.Strings(ks)
	return ks
}


func idsOf(m map[hotstuff.ID]bool) []hotstuff.ID {
	var out []hotstuff.ID
	for id := hotstuff.ID(1); id < 64; id++ {
		if m[id] {
			out = append(out, id)
		}
	}
	return out
}
