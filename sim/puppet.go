package zz_verifsim

import (
	"bytes"
	"context"
	"fmt"
	"io"
	"testing"
	"time"

	"github.com/relab/hotstuff"
	"github.com/relab/hotstuff/core"
	"github.com/relab/hotstuff/core/eventloop"
	"github.com/relab/hotstuff/internal/proto/clientpb"
	"github.com/relab/hotstuff/protocol/consensus"
	"github.com/relab/hotstuff/protocol/rules"
	"github.com/relab/hotstuff/security/blockchain"
)

// ---- reference rules, written from the papers (DESIGN.md appendix A) ---------------------------------

// refView is how the reference reads the block store: what is stored locally or can be fetched.
type refView func(h hotstuff.Hash) *hotstuff.Block

type refRules struct {
	kind string
	lock *hotstuff.Block
}

func newRefRules(kind string) *refRules { return &refRules{kind: kind, lock: hotstuff.GetGenesis()} }

// j returns the block certified by x's QC, or nil. ok=false means the link is outside the domain of
// the published rules (views must grow along justify links): the reference abstains.
func j(get refView, x *hotstuff.Block) (b *hotstuff.Block, inDomain bool) {
	h := x.QuorumCert().BlockHash()
	if h == (hotstuff.Hash{}) {
		return nil, true
	}
	b = get(h)
	if b == nil {
		return nil, true
	}
	if x.View() <= b.View() {
		return b, false
	}
	return b, true
}

// extends: target lies on b's parent chain (or is b). abstain if views do not grow along the walked links.
func refExtends(get refView, b, target *hotstuff.Block) (ans, inDomain bool) {
	cur := b
	for cur.View() > target.View() {
		p := get(cur.Parent())
		if p == nil {
			return false, true
		}
		if p.View() >= cur.View() {
			return false, false
		}
		cur = p
	}
	return cur.Hash() == target.Hash(), true
}

// vote returns the reference's vote decision; ok=false: abstain.
func (r *refRules) vote(get refView, curView hotstuff.View, p hotstuff.ProposeMsg) (vote, ok bool) {
	vote, ok = r.vote0(get, curView, p)
	if vote && ok && (r.kind == rules.NameChainedHotStuff || r.kind == rules.NameSimpleHotStuff) {
		// A vote presupposes that update(b*) can move the lock: the published protocols take the branch of b* to
		// be at hand. If the block the lock update reads below j(b*) is not in the replica's store, whether it can
		// be had is the network's business: outside the reference's domain (the implementation refuses to vote
		// when the fetch fails, see D19).
		jh := p.Block.QuorumCert().BlockHash()
		jb := get(jh)
		if jb == nil && jh != (hotstuff.Hash{}) {
			return false, false
		}
		if jb != nil {
			if h := jb.QuorumCert().BlockHash(); h != (hotstuff.Hash{}) && get(h) == nil {
				return false, false
			}
		}
	}
	return vote, ok
}

func (r *refRules) vote0(get refView, curView hotstuff.View, p hotstuff.ProposeMsg) (vote, ok bool) {
	b := p.Block
	switch r.kind {
	case rules.NameChainedHotStuff:
		// safeNode: liveness (justify newer than the lock) or safety (extends the lock)
		jb, dom := j(get, b)
		if !dom {
			return false, false
		}
		if jb != nil && jb.View() > r.lock.View() {
			return true, true
		}
		ext, dom2 := refExtends(get, b, r.lock)
		if !dom2 {
			return false, false
		}
		return ext, true
	case rules.NameFastHotStuff:
		if p.AggregateQC != nil {
			// the aggregate that justifies an unhappy-path proposal is the one of the view just before it: an older
			// one proves nothing about what the replicas knew when the proposal was made (a leader could otherwise
			// fork off any old high QC by replaying the aggregate that once contained it)
			if uint64(p.AggregateQC.View())+1 != uint64(b.View()) {
				return false, true
			}
			jb := get(b.QuorumCert().BlockHash())
			if jb == nil {
				return false, true
			}
			ext, dom := refExtends(get, b, jb)
			if !dom {
				return false, false
			}
			return ext, true
		}
		return b.View() >= curView && b.View() == b.QuorumCert().View()+1, true
	case rules.NameSimpleHotStuff:
		if b.View() < curView {
			return false, true
		}
		jb := get(b.QuorumCert().BlockHash())
		if jb == nil {
			return false, true
		}
		return jb.View() >= r.lock.View(), true
	}
	return false, false
}

// commit applies the commit rule to b*, updates the lock, and returns the block to commit (or nil);
// ok=false: abstain (outside the domain).
func (r *refRules) commit(get refView, bs *hotstuff.Block) (c *hotstuff.Block, ok bool) {
	switch r.kind {
	case rules.NameChainedHotStuff:
		b2, dom := j(get, bs) // b''
		if !dom {
			return nil, false
		}
		if b2 == nil {
			return nil, true
		}
		b1, dom := j(get, b2) // b'
		if !dom {
			return nil, false
		}
		if b1 == nil {
			return nil, true
		}
		if b1.View() > r.lock.View() {
			r.lock = b1
		}
		b0, dom := j(get, b1) // b
		if !dom {
			return nil, false
		}
		if b0 == nil {
			return nil, true
		}
		if b2.Parent() == b1.Hash() && b2.View() == b1.View()+1 && b1.Parent() == b0.Hash() && b1.View() == b0.View()+1 {
			return b0, true
		}
		return nil, true
	case rules.NameFastHotStuff:
		p, dom := j(get, bs)
		if !dom {
			return nil, false
		}
		if p == nil {
			return nil, true
		}
		g, dom := j(get, p)
		if !dom {
			return nil, false
		}
		if g == nil {
			return nil, true
		}
		if bs.Parent() == p.Hash() && bs.View() == p.View()+1 && p.Parent() == g.Hash() && p.View() == g.View()+1 {
			return g, true
		}
		return nil, true
	case rules.NameSimpleHotStuff:
		p, dom := j(get, bs)
		if !dom {
			return nil, false
		}
		if p == nil {
			return nil, true
		}
		g, dom := j(get, p)
		if !dom {
			return nil, false
		}
		if g == nil {
			return nil, true
		}
		if g.View() > r.lock.View() {
			r.lock = g
		}
		gg, dom := j(get, g)
		if !dom {
			return nil, false
		}
		if gg == nil {
			return nil, true
		}
		if gg.View()+1 == g.View() && g.View()+1 == p.View() {
			return gg, true
		}
		return nil, true
	}
	return nil, false
}

// ---- C04 shadow in W-consensus: every rule call of every honest replica is mirrored ------------------

func monC04(w *World) {
	refs := map[*Node]*refRules{}
	// The published protocols apply update(b) to every proposal a replica votes for: a vote for a received block b
	// whose handling never consulted the commit rule for b is compared with the reference's update(b) at the end
	// of the step (lock and, if the reference commits, the committed block).
	consulted := map[*Node]map[hotstuff.Hash]bool{}
	votedFor := map[*Node]*hotstuff.Block{}
	w.hooks.onSign = append(w.hooks.onSign, func(nd *Node, msg []byte, _ hotstuff.QuorumSignature) {
		if !nd.honest || nd.byz != nil {
			return
		}
		if pm, ok := nd.curEvent.(hotstuff.ProposeMsg); ok && pm.Block != nil && bytes.Equal(msg, pm.Block.ToBytes()) {
			votedFor[nd] = pm.Block
		}
	})
	w.hooks.afterStep = append(w.hooks.afterStep, func(nd *Node) {
		b := votedFor[nd]
		done := consulted[nd]
		delete(votedFor, nd)
		delete(consulted, nd)
		if b == nil || done[b.Hash()] || w.viol != nil {
			return
		}
		r := refs[nd]
		if r == nil {
			r = newRefRules(w.plan.Ruleset)
			refs[nd] = r
		}
		missing := false
		get := func(h hotstuff.Hash) *hotstuff.Block {
			x, ok := nd.bc.LocalGet(h)
			if !ok {
				missing = true
				return nil
			}
			return x
		}
		want, ok := r.commit(get, b)
		if !ok || missing {
			w.probe("c04-abstain")
			if l := nd.rules.lock(); l != nil {
				r.lock = l
			}
			return
		}
		w.probe("c04-unconsulted-vote-compared")
		if l := nd.rules.lock(); l != nil && l.Hash() != r.lock.Hash() {
			w.violate("C04", "C04/"+w.plan.Ruleset+"/lock", nd, "%s voted for %s without applying the commit rule to it: its lock is %s, the published update(b) locks %s", nd, w.reg.sym(b.Hash()), w.reg.sym(l.Hash()), w.reg.sym(r.lock.Hash()))
			return
		}
		if want != nil && nd.states.CommittedBlock().View() < want.View() {
			w.violate("C04", "C04/"+w.plan.Ruleset+"/commit", nd, "%s voted for %s without applying the commit rule to it: the published update(b) commits %s", nd, w.reg.sym(b.Hash()), w.reg.sym(want.Hash()))
		}
	})
	w.hooks.onRule = append(w.hooks.onRule, func(nd *Node, kind string, view hotstuff.View, p *hotstuff.ProposeMsg, b *hotstuff.Block) func(vote bool, commit *hotstuff.Block) {
		if !nd.honest || w.viol != nil {
			return nil
		}
		if nd.byz != nil {
			return nil
		}
		r := refs[nd]
		if r == nil {
			r = newRefRules(w.plan.Ruleset)
			refs[nd] = r
		}
		// the reference reads the replica's own store only; if it needs a block that is not there it
		// abstains for this call (whether a fetch would succeed is the network's business) and
		// re-synchronises its lock from the implementation.
		missing := false
		get := func(h hotstuff.Hash) *hotstuff.Block {
			x, ok := nd.bc.LocalGet(h)
			if !ok {
				if w.reg.get(h) != nil {
					missing = true // exists somewhere: a fetch may or may not have brought it
				}
				return nil
			}
			return x
		}
		sym := func(x *hotstuff.Block) string {
			if x == nil {
				return "none"
			}
			return w.reg.sym(x.Hash())
		}
		resync := func() {
			if l := nd.rules.lock(); l != nil {
				r.lock = l
			}
		}
		// The reference is evaluated on the store as it is BEFORE the real rule runs: the rule may fetch blocks,
		// and whether such a fetch succeeds is the network's business, not the rule's.
		switch kind {
		case "vote":
			lockBefore := r.lock
			want, ok := r.vote(get, view, *p)
			abstain := !ok || missing
			return func(vote bool, _ *hotstuff.Block) {
				if abstain {
					w.probe("c04-abstain")
					return
				}
				w.probe("c04-vote-compared")
				if want {
					w.probe("c04-vote-yes")
				}
				if want != vote {
					w.violate("C04", "C04/"+w.plan.Ruleset+"/vote", nd, "%s: vote rule says %v for %s in view %d with lock %s; the published rule says %v", nd, vote, sym(p.Block), view, sym(lockBefore), want)
				}
			}
		case "commit":
			if consulted[nd] == nil {
				consulted[nd] = map[hotstuff.Hash]bool{}
			}
			consulted[nd][b.Hash()] = true
			want, ok := r.commit(get, b)
			abstain := !ok || missing
			return func(_ bool, commit *hotstuff.Block) {
				if abstain {
					w.probe("c04-abstain")
					resync()
					return
				}
				w.probe("c04-commit-compared")
				if want != nil {
					w.probe("c04-commit-yes")
				}
				if (want == nil) != (commit == nil) || (want != nil && want.Hash() != commit.Hash()) {
					w.violate("C04", "C04/"+w.plan.Ruleset+"/commit", nd, "%s: commit rule on %s returns %s; the published rule commits %s", nd, sym(b), sym(commit), sym(want))
					return
				}
				if l := nd.rules.lock(); l != nil && l.Hash() != r.lock.Hash() {
					w.violate("C04", "C04/"+w.plan.Ruleset+"/lock", nd, "%s: after the commit rule on %s the lock is %s; the published rule locks %s", nd, sym(b), sym(l), sym(r.lock))
				}
			}
		}
		return nil
	})
}

// ---- W-puppet (forest world): arbitrary certified forests presented to the real rules -------------------

func GenPuppetPlan(prop string, seed uint64) *Plan {
	g := newGen(seed, 4)
	p := &Plan{Version: 1, Property: prop, Seed: seed, Inner: g.u64(), World: "puppet", N: 4}
	p.Ruleset = pick(g, rules.NameChainedHotStuff, rules.NameChainedHotStuff, rules.NameSimpleHotStuff, rules.NameFastHotStuff)
	p.Knobs = map[string]int{
		"blocks":   g.rng(5, 60),
		"forkPct":  pick(g, 0, 10, 30, 60),
		"gapPct":   pick(g, 0, 10, 30),
		"qcOffPct": pick(g, 0, 0, 10, 30), // QC certifies a block other than the parent
		"missPct":  pick(g, 0, 0, 5, 15),  // blocks withheld from the replica (not stored, fetch fails)
		"fetchPct": pick(g, 0, 10, 30),    // blocks not stored but fetchable
		"shuffle":  pick(g, 0, 0, 2, 6),   // presentation-order displacement
		"aggPct":   pick(g, 0, 30),
	}
	p.UntilMs = 1
	p.MaxSteps = 100000
	return p
}

type forestSender struct {
	avail map[hotstuff.Hash]*hotstuff.Block
	n     int
}

func (forestSender) NewView(hotstuff.ID, hotstuff.SyncInfo) error { return nil }
func (forestSender) Vote(hotstuff.ID, hotstuff.PartialCert) error { return nil }
func (forestSender) Timeout(hotstuff.TimeoutMsg)                  {}
func (forestSender) Propose(*hotstuff.ProposeMsg)                 {}
func (s *forestSender) Sub([]hotstuff.ID) (core.Sender, error)    { return s, nil }
func (s *forestSender) RequestBlock(_ context.Context, h hotstuff.Hash) (*hotstuff.Block, bool) {
	s.n++
	b, ok := s.avail[h]
	return b, ok
}

func runPuppetWorld(t *testing.T, p *Plan, want []string, logw io.Writer) *Result {
	start := time.Now()
	res := &Result{Seed: p.Seed, Stats: newStats()}
	st := res.Stats
	g := newGen(p.Inner, 5)
	k := func(name string) int { return p.knob(name, 0) }
	pct := func(name string) bool { return g.intn(100) < k(name) }
	logf := func(format string, a ...any) {
		line := fmt.Sprintf(format, a...)
		st.Fingerprint = mix(st.Fingerprint, uint64(len(line)), hashStr(line))
		if logw != nil {
			_, _ = io.WriteString(logw, line+"\n")
		}
	}

	lg := &simLogger{nd: &Node{w: &World{stats: st}}}
	el := eventloop.New(lg, 64)
	snd := &forestSender{avail: map[hotstuff.Hash]*hotstuff.Block{}}
	bc := blockchain.New(el, lg, snd)
	opts := []core.RuntimeOption{}
	if p.Ruleset == rules.NameFastHotStuff {
		opts = append(opts, core.WithAggregateQC())
	}
	cfg := core.NewRuntimeConfig(1, nil, opts...)
	rs, err := rules.New(lg, cfg, bc, p.Ruleset)
	if err != nil {
		res.Harness = err.Error()
		return res
	}
	ref := newRefRules(p.Ruleset)
	lockOf := func() *hotstuff.Block {
		switch x := rs.(type) {
		case *rules.ChainedHotStuff:
			return x.VerifLock()
		case *rules.SimpleHotStuff:
			return x.VerifLock()
		}
		return nil
	}

	// the forest
	type fb struct {
		b       *hotstuff.Block
		name    string
		missing bool // withheld: neither stored nor fetchable
		fetch   bool // not stored, fetchable
	}
	all := []*fb{{b: hotstuff.GetGenesis(), name: "G"}}
	byHash := map[hotstuff.Hash]*fb{hotstuff.GetGenesis().Hash(): all[0]}
	tip := all[0]
	for i := 1; i <= k("blocks"); i++ {
		parent := tip
		if pct("forkPct") {
			parent = all[g.intn(len(all))]
		}
		target := parent
		if pct("qcOffPct") {
			target = all[g.intn(len(all))]
		}
		view := target.b.View() + 1
		if parent.b.View() >= view {
			view = parent.b.View() + 1
		}
		if pct("gapPct") {
			view += hotstuff.View(g.rng(1, 3))
		}
		qc := hotstuff.NewQuorumCert(nil, target.b.View(), target.b.Hash())
		batch := &clientpb.Batch{Commands: []*clientpb.Command{{ClientID: 1, SequenceNumber: uint64(i)}}}
		b := hotstuff.NewBlock(parent.b.Hash(), qc, batch, view, hotstuff.ID(1+g.intn(4)))
		f := &fb{b: b, name: fmt.Sprintf("F%d(v%d,par=%s,qc=%s)", i, view, parent.name[:idxOr(parent.name, '(')], target.name[:idxOr(target.name, '(')])}
		if pct("missPct") {
			f.missing = true
		} else if pct("fetchPct") {
			f.fetch = true
			snd.avail[b.Hash()] = b
		}
		all = append(all, f)
		byHash[b.Hash()] = f
		if !pct("forkPct") {
			tip = f
		}
	}
	// presentation order: creation order, locally displaced
	order := make([]*fb, 0, len(all)-1)
	order = append(order, all[1:]...)
	if sh := k("shuffle"); sh > 0 {
		for i := range order {
			j := i + g.intn(sh+1)
			if j < len(order) {
				order[i], order[j] = order[j], order[i]
			}
		}
	}
	get := func(h hotstuff.Hash) *hotstuff.Block {
		if b, ok := bc.LocalGet(h); ok {
			return b
		}
		if b, ok := snd.avail[h]; ok {
			return b
		}
		return nil
	}
	name := func(b *hotstuff.Block) string {
		if b == nil {
			return "none"
		}
		if f := byHash[b.Hash()]; f != nil {
			return f.name
		}
		return "?"
	}
	viol := func(class, format string, a ...any) {
		if res.Violation == nil {
			res.Violation = &Violation{Property: "C04", Class: class, Step: st.Steps, Detail: fmt.Sprintf(format, a...)}
		}
	}
	curView := hotstuff.View(1)
	for _, f := range order {
		if res.Violation != nil {
			break
		}
		st.Steps++
		if f.missing {
			logf("withheld %s", f.name)
			st.Faults["block-withheld"]++
			continue
		}
		if !f.fetch {
			bc.Store(f.b)
		} else {
			st.Faults["block-only-fetchable"]++
		}
		prop := hotstuff.ProposeMsg{ID: f.b.Proposer(), Block: f.b}
		if p.Ruleset == rules.NameFastHotStuff && pct("aggPct") {
			agg := hotstuff.NewAggregateQC(map[hotstuff.ID]hotstuff.QuorumCert{1: f.b.QuorumCert()}, nil, f.b.View()-1)
			prop.AggregateQC = &agg
		}
		// the replica's current view: at, before or after the block's view
		switch g.intn(4) {
		case 0:
			curView = f.b.View()
		case 1:
			if f.b.View() > 1 {
				curView = f.b.View() - 1
			}
		case 2:
			curView = f.b.View() + 1
		}
		wantVote, okV := ref.vote(get, curView, prop)
		gotVote := rs.VoteRule(curView, prop)
		logf("present %s cur=%d vote=%v lock=%s", f.name, curView, gotVote, name(lockOf()))
		if okV {
			st.Probes["c04-vote-compared"]++
			if wantVote {
				st.Probes["c04-vote-yes"]++
			}
			if wantVote != gotVote {
				viol("C04/"+p.Ruleset+"/vote", "vote rule says %v for %s in view %d with lock %s; the published rule says %v", gotVote, f.name, curView, name(ref.lock), wantVote)
				break
			}
		} else {
			st.Probes["c04-abstain"]++
		}
		if f.fetch {
			// a proposal is stored before the commit rule runs (TryCommit)
			bc.Store(f.b)
		}
		wantC, okC := ref.commit(get, f.b)
		gotC := rs.CommitRule(f.b)
		logf("  commit=%s lock=%s", name(gotC), name(lockOf()))
		if !okC {
			st.Probes["c04-abstain"]++
			if l := lockOf(); l != nil {
				ref.lock = l
			}
			continue
		}
		st.Probes["c04-commit-compared"]++
		if wantC != nil {
			st.Probes["c04-commit-yes"]++
			st.Commits++
		}
		if (wantC == nil) != (gotC == nil) || (wantC != nil && wantC.Hash() != gotC.Hash()) {
			viol("C04/"+p.Ruleset+"/commit", "commit rule on %s returns %s; the published rule commits %s", f.name, name(gotC), name(wantC))
			break
		}
		if l := lockOf(); l != nil && l.Hash() != ref.lock.Hash() {
			viol("C04/"+p.Ruleset+"/lock", "after the commit rule on %s the lock is %s; the published rule locks %s", f.name, name(l), name(ref.lock))
			break
		}
	}
	st.Probes["fetch"] = snd.n
	var _ consensus.Ruleset = rs
	res.Summary = fmt.Sprintf("forest %s blocks=%d fork=%d%% gap=%d%% qcOff=%d%% miss=%d%% fetch=%d%% shuffle=%d commits=%d", p.Ruleset, k("blocks"), k("forkPct"), k("gapPct"), k("qcOffPct"), k("missPct"), k("fetchPct"), k("shuffle"), st.Commits)
	res.WallMs = float64(time.Since(start).Microseconds()) / 1000
	return res
}

func idxOr(s string, c byte) int {
	for i := 0; i < len(s); i++ {
		if s[i] == c {
			return i
		}
	}
	return len(s)
}

func hashStr(s string) uint64 {
	h := uint64(1469598103934665603)
	for i := 0; i < len(s); i++ {
		h ^= uint64(s[i])
		h *= 1099511628211
	}
	return h
}
