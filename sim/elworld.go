package zz_verifsim

import (
	"context"
	"fmt"
	"io"
	"strings"
	"sync"
	"testing"
	"testing/synctest"
	"time"

	"github.com/relab/hotstuff/core/eventloop"
)

// W-eventloop: one real EventLoop and a seeded operation sequence issued by producer tasks (add, defer,
// register, unregister — also from inside handlers during dispatch — tickers under the fake clock,
// cancellation of the run context), interleaved at operation granularity with the consumer. The consumer
// is either stepped (Tick) or a real Run goroutine that can be stalled inside a handler so that the
// bounded queue fills up and overflows while producers continue.
//
// Reference model: FIFO queue of the configured capacity with drop-oldest; per event the handlers
// registered at that moment run once each, prioritised ones first; run-in-AddEvent handlers run inside
// AddEvent and not again; events deferred until type T are re-added, in deferral order, after an event
// of type T has been handled. Observations only through the public API and the captured logger.

type evA struct{ ID int }
type evB struct{ ID int }
type evC struct{ ID int }
type evT struct{ ID int } // ticker events

func evType(e any) int {
	switch e.(type) {
	case evA:
		return 0
	case evB:
		return 1
	case evC:
		return 2
	case evT:
		return 3
	}
	return -1
}
func evID(e any) int {
	switch x := e.(type) {
	case evA:
		return x.ID
	case evB:
		return x.ID
	case evC:
		return x.ID
	case evT:
		return x.ID
	}
	return -1
}
func mkEv(t, id int) any {
	switch t {
	case 0:
		return evA{id}
	case 1:
		return evB{id}
	case 2:
		return evC{id}
	}
	return evT{id}
}

func GenEventLoopPlan(seed uint64) *Plan {
	g := newGen(seed, 14)
	p := &Plan{Version: 1, Property: "C14", Seed: seed, Inner: g.u64(), World: "eventloop", UntilMs: 1, MaxSteps: 10000}
	p.Knobs = map[string]int{"cap": pick(g, 1, 1, 2, 2, 3, 4, 5, 8, 64), "run": g.intn(2)}
	nops := g.rng(5, 120)
	tasks := g.rng(1, 4)
	for i := 0; i < nops; i++ {
		op := SmallOp{Task: g.intn(tasks)}
		switch g.weighted(40, 22, 10, 8, 6, 4, 4, 3, 3, 4, 4) {
		case 0:
			op.Op, op.A = "add", g.intn(3)
		case 1:
			op.Op, op.A = "tick", g.rng(1, 4)
		case 2:
			op.Op, op.A, op.B = "delay", g.intn(3), g.intn(3) // an event of type A deferred until type B
		case 3:
			op.Op, op.A, op.B = "register", g.intn(3), g.intn(8) // B: bit0 priority, bit1 run-in-AddEvent, bit2 acts when invoked
		case 4:
			op.Op, op.A = "unregister", g.intn(12)
		case 5:
			op.Op = "stall" // run mode: the consumer blocks inside the next ordinary evC handler
		case 6:
			op.Op = "release"
		case 7:
			op.Op, op.A = "ticker", g.rng(2, 6)
		case 8:
			op.Op, op.A = "sleep", g.rng(1, 30)
		case 9:
			op.Op, op.A, op.B = "idlerace", g.intn(3), g.intn(3) // a producer adds while the consumer is between "queue empty" and waiting
		case 10:
			op.Op, op.A = "pushrace", g.intn(3) // a producer goroutine is held right after its push while the consumer runs
		}
		p.Ops = append(p.Ops, op)
	}
	if g.p(0.5) {
		if g.p(0.5) {
			// the context is cancelled while the consumer sits inside a handler and events are waiting behind it
			p.Ops = append(p.Ops, SmallOp{Op: "stall"}, SmallOp{Op: "add", A: 2})
			for i := 0; i < g.rng(2, 5); i++ {
				p.Ops = append(p.Ops, SmallOp{Op: "add", A: g.intn(3)})
			}
		}
		if g.p(0.35) {
			// ... or at the very moment the consumer has found the queue empty and is about to wait: an event is added
			// and the context cancelled inside that window
			p.Ops = append(p.Ops, SmallOp{Op: "idlecancel", A: g.intn(3), B: g.intn(3)})
		}
		p.Ops = append(p.Ops, SmallOp{Op: "cancel", A: g.intn(2)})
		for i := 0; i < g.intn(4); i++ {
			p.Ops = append(p.Ops, SmallOp{Op: "add", A: g.intn(3)})
		}
	}
	return p
}

type elHandler struct {
	id      int
	typ     int
	prio    bool
	inAdd   bool
	acts    bool
	active  bool
	unreg   func()
	actSeed uint64
}

type elKey struct {
	ev    int
	inAdd bool
}

type elGroup struct {
	key  elKey
	prio map[int]bool
	norm map[int]bool
}

type elLogger struct {
	simLogger
	mu    sync.Mutex
	drops []string
}

func (l *elLogger) Warnf(t string, args ...any) {
	if strings.HasPrefix(t, "event queue is full") && len(args) > 0 {
		l.mu.Lock()
		l.drops = append(l.drops, fmt.Sprint(args[0]))
		l.mu.Unlock()
	}
}

type elWorld struct {
	p       *Plan
	res     *Result
	st      *Stats
	logw    io.Writer
	fp      uint64
	mu      sync.Mutex // the consumer goroutine and the driver share the records below (run mode)
	el      *eventloop.EventLoop
	lg      *elLogger
	ctx     context.Context
	cancel  context.CancelFunc
	runMode bool

	handlers []*elHandler
	nextEv   int

	// the reference model
	capQ     int
	q        []any // nil entries stand for the loop's own start-ticker events
	waiting  [4][]any
	waitingLate [4][]any // deferred while the loop was re-adding deferred events: they wait for the next event of the type
	inTick   bool
	dispDepth int
	dropped  []string
	expected []elGroup
	popOrder []int // ids of dispatched events, in the model's pop order

	// observations
	actual    map[elKey][]int // handler ids per (event, phase), in invocation order
	dispOrder []int           // event ids in the order their first ordinary/priority dispatch handler ran
	seenDisp  map[int]bool

	stallArmed bool // read by the real handler
	stalled    bool // set by the real handler when it blocks
	gate       chan struct{}
	consumerOn bool
	canceled   bool

	modelStallArmed bool
	stalledModel    bool
	modelStalledOn  any
	everStalled     bool
	stallCount      int
	parkArmed       bool
	parked          bool
	parkCh          chan struct{}
	pushArmed       bool // pushrace: the producer goroutine pGID parks at the "pushed" point
	pushParked      bool
	pushCh          chan struct{}
	pGID            uint64
	ordinaryDisp    map[int]bool // events for which an ordinary handler has run in the dispatch phase
	lateObserver    string
	tickSeen        []int // ticker event ids in the order they were handled
	sleptMs         int
	tickerMs        int
}

func runEventLoopWorld(t *testing.T, p *Plan, want []string, logw io.Writer) *Result {
	res := &Result{Seed: p.Seed, Stats: newStats()}
	start := time.Now()
	func() {
		defer func() {
			if r := recover(); r != nil {
				if strings.Contains(fmt.Sprint(r), "deadlock") {
					res.Stats.Probes["bubble-leftover"]++
					return
				}
				panic(r)
			}
		}()
		synctest.Test(t, func(t *testing.T) {
			w := &elWorld{p: p, res: res, st: res.Stats, logw: logw, actual: map[elKey][]int{}, seenDisp: map[int]bool{}, gate: make(chan struct{})}
			w.run()
		})
	}()
	res.WallMs = float64(time.Since(start).Microseconds()) / 1000
	return res
}

func (w *elWorld) logf(format string, a ...any) {
	line := fmt.Sprintf(format, a...)
	w.fp = mix(w.fp, hashStr(line))
	if w.logw != nil {
		_, _ = io.WriteString(w.logw, line+"\n")
	}
}

func (w *elWorld) viol(class, format string, a ...any) {
	if w.res.Violation == nil {
		w.res.Violation = &Violation{Property: "C14", Class: class, Step: w.st.Steps, Detail: fmt.Sprintf(format, a...)}
		w.logf("VIOLATION %s %s", class, w.res.Violation.Detail)
	}
}

func (w *elWorld) snapshot(e any, inAdd bool) elGroup {
	g := elGroup{key: elKey{evID(e), inAdd}, prio: map[int]bool{}, norm: map[int]bool{}}
	for _, h := range w.handlers {
		if h.active && h.typ == evType(e) && h.inAdd == inAdd {
			if h.prio {
				g.prio[h.id] = true
			} else {
				g.norm[h.id] = true
			}
		}
	}
	return g
}

func (w *elWorld) modelPush(e any) {
	if len(w.q) == w.capQ {
		old := w.q[0]
		w.q = w.q[1:]
		if old == nil {
			w.dropped = append(w.dropped, "{0}") // a start-ticker event: printed as its struct
			w.st.Probes["c14-start-ticker-dropped"]++
		} else {
			w.dropped = append(w.dropped, fmt.Sprintf("{%d}", evID(old)))
		}
		w.st.Faults["queue-overflow"]++
	}
	w.q = append(w.q, e)
}

// add performs AddEvent on the loop and on the model (callers hold w.mu in run mode when on the consumer).
func (w *elWorld) add(e any) {
	g := w.snapshot(e, true)
	w.expected = append(w.expected, g)
	w.modelPush(e)
}

func (w *elWorld) invoked(h *elHandler, e any) {
	k := elKey{evID(e), h.inAdd}
	if evID(e) >= 100000 {
		w.tickSeen = append(w.tickSeen, evID(e))
		return
	}
	w.actual[k] = append(w.actual[k], h.id)
	if w.ordinaryDisp == nil {
		w.ordinaryDisp = map[int]bool{}
	}
	if !h.inAdd && !h.prio {
		w.ordinaryDisp[evID(e)] = true
	}
	if h.inAdd && h.prio && w.ordinaryDisp[evID(e)] && w.lateObserver == "" {
		w.lateObserver = fmt.Sprintf("prioritised run-in-AddEvent handler h%d saw event %d after an ordinary handler had already handled it", h.id, evID(e))
	}
	if !h.inAdd && !w.seenDisp[evID(e)] {
		w.seenDisp[evID(e)] = true
		w.dispOrder = append(w.dispOrder, evID(e))
	}
}

func (w *elWorld) register(typ, flags int) {
	h := &elHandler{id: len(w.handlers), typ: typ, prio: flags&1 != 0, inAdd: flags&2 != 0, acts: flags&4 != 0, active: true,
		actSeed: mix(w.p.Inner, uint64(len(w.handlers)))}
	// (a run-in-AddEvent handler that acts only defers events: see act)
	var opts []eventloop.HandlerOption
	if h.prio {
		opts = append(opts, eventloop.Prioritize())
	}
	if h.inAdd {
		opts = append(opts, eventloop.UnsafeRunInAddEvent())
	}
	cb := func(e any) {
		if w.runMode {
			w.mu.Lock()
		}
		w.invoked(h, e)
		block := false
		if h.typ == 2 && !h.inAdd && w.stallArmed && w.runMode {
			w.stallArmed = false
			w.stalled = true
			block = true
			w.stallCount++
		}
		if w.runMode {
			w.mu.Unlock()
		}
		if block {
			<-w.gate
		}
		if h.acts && !w.runMode {
			if !h.inAdd {
				w.dispDepth++
			}
			w.act(h, e)
			if !h.inAdd {
				w.dispDepth--
			}
		}
	}
	switch typ {
	case 0:
		h.unreg = eventloop.Register(w.el, func(e evA) { cb(e) }, opts...)
	case 1:
		h.unreg = eventloop.Register(w.el, func(e evB) { cb(e) }, opts...)
	case 2:
		h.unreg = eventloop.Register(w.el, func(e evC) { cb(e) }, opts...)
	default:
		h.unreg = eventloop.Register(w.el, func(e evT) { cb(e) }, opts...)
	}
	w.handlers = append(w.handlers, h)
}

// act: what an acting handler does while the loop is dispatching (stepped mode only).
func (w *elWorld) act(h *elHandler, e any) {
	r := mix(h.actSeed, uint64(evID(e)))
	if h.inAdd {
		// a handler that runs inside AddEvent defers further events (half of the time). If this happens while
		// the loop is re-adding the events deferred until type T, a new deferral until T belongs to the NEXT
		// event of type T.
		if r%2 == 0 && w.nextEv < 3000 {
			ne := mkEv(int(r>>8)%3, w.nextEv)
			w.nextEv++
			until := int(r>>12) % 3
			if w.inTick && w.dispDepth == 0 {
				w.waitingLate[until] = append(w.waitingLate[until], ne)
				w.st.Probes["c14-defer-during-release"]++
			} else {
				w.waiting[until] = append(w.waiting[until], ne)
			}
			w.delayReal(until, ne)
		}
		return
	}
	switch r % 4 {
	case 0:
		if w.nextEv < 3000 && r%3 != 0 {
			ne := mkEv(int(r>>8)%3, w.nextEv)
			w.nextEv++
			w.add(ne)
			w.el.AddEvent(ne)
			w.st.Probes["c14-add-during-dispatch"]++
		}
	case 1:
		for _, o := range w.handlers {
			if o.active && o.id != h.id && (r>>8)%2 == 0 {
				o.active = false
				o.unreg()
				w.st.Probes["c14-unregister-during-dispatch"]++
				break
			}
		}
	case 2:
		if len(w.handlers) < 24 {
			w.register(int(r>>8)%3, int(r>>12)%4)
			w.st.Probes["c14-register-during-dispatch"]++
		}
	case 3:
		if w.nextEv < 3000 {
			ne := mkEv(int(r>>8)%3, w.nextEv)
			w.nextEv++
			until := int(r>>12) % 3
			w.waiting[until] = append(w.waiting[until], ne)
			w.delayReal(until, ne)
			w.st.Probes["c14-defer-during-dispatch"]++
		}
	}
}

func (w *elWorld) delayReal(until int, e any) {
	switch until {
	case 0:
		eventloop.DelayUntil[evA](w.el, e)
	case 1:
		eventloop.DelayUntil[evB](w.el, e)
	default:
		eventloop.DelayUntil[evC](w.el, e)
	}
}

// modelDispatchBegin pops the model's head and records the expectation for its dispatch.
// It returns the popped event (nil for a start-ticker entry) and whether there was one.
func (w *elWorld) modelDispatchBegin() (any, bool) {
	if len(w.q) == 0 {
		return nil, false
	}
	e := w.q[0]
	w.q = w.q[1:]
	if e != nil {
		w.expected = append(w.expected, w.snapshot(e, false))
		w.popOrder = append(w.popOrder, evID(e))
	}
	return e, true
}

// modelDispatchEnd releases the events deferred until e's type, in deferral order.
func (w *elWorld) modelDispatchEnd(e any) {
	if e == nil {
		return
	}
	t := evType(e)
	if t > 2 {
		return
	}
	rel := w.waiting[t]
	w.waiting[t] = nil
	for _, d := range rel {
		w.add(d)
		w.st.Probes["c14-deferred-released"]++
	}
	for i := range w.waitingLate {
		w.waiting[i] = append(w.waiting[i], w.waitingLate[i]...)
		w.waitingLate[i] = nil
	}
}

func (w *elWorld) run() {
	p := w.p
	w.capQ = p.knob("cap", 2)
	w.runMode = p.knob("run", 0) == 1
	dummy := &Node{w: &World{stats: w.st}}
	w.lg = &elLogger{simLogger: simLogger{nd: dummy}}
	w.el = eventloop.New(w.lg, uint(w.capQ))
	w.ctx, w.cancel = context.WithCancel(context.Background())
	defer w.cancel()
	if w.runMode {
		w.runConsumer()
	} else {
		w.stepped()
	}
	if w.stallCount > 0 {
		w.st.Faults["consumer-stalled"] += w.stallCount
	}
	w.compare()
	mode := "stepped"
	if w.runMode {
		mode = "run"
	}
	w.st.Fingerprint = mix(w.fp, uint64(len(w.popOrder)))
	w.res.Summary = fmt.Sprintf("eventloop %s cap=%d ops=%d handlers=%d events=%d dispatched=%d dropped=%d", mode, w.capQ, len(p.Ops), len(w.handlers), w.nextEv, len(w.popOrder), len(w.dropped))
}

func (w *elWorld) tickOnce() {
	e, ok := w.modelDispatchBegin()
	w.inTick = true
	handled := w.el.Tick(w.ctx)
	w.inTick = false
	if !ok {
		if handled {
			w.viol("C14/dup", "Tick handled an event although the reference queue is empty")
		}
		return
	}
	if !handled {
		w.viol("C14/lost", "Tick found nothing although the reference queue holds an event")
		return
	}
	w.modelDispatchEnd(e)
}

func (w *elWorld) stepped() {
	for i, op := range w.p.Ops {
		if w.res.Violation != nil {
			return
		}
		w.st.Steps++
		switch op.Op {
		case "add":
			e := mkEv(op.A, w.nextEv)
			w.nextEv++
			w.logf("op%d add %T%v", i, e, e)
			w.add(e)
			w.el.AddEvent(e)
		case "tick":
			for k := 0; k < op.A && w.res.Violation == nil; k++ {
				w.logf("op%d tick", i)
				w.tickOnce()
			}
		case "delay":
			e := mkEv(op.A, w.nextEv)
			w.nextEv++
			w.logf("op%d defer %T%v until type %d", i, e, e, op.B)
			w.waiting[op.B] = append(w.waiting[op.B], e)
			w.delayReal(op.B, e)
			w.st.Probes["c14-deferred"]++
		case "register":
			if len(w.handlers) < 24 {
				w.logf("op%d register h%d type=%d flags=%d", i, len(w.handlers), op.A, op.B)
				w.register(op.A, op.B)
			}
		case "unregister":
			if op.A < len(w.handlers) && w.handlers[op.A].active {
				w.logf("op%d unregister h%d", i, op.A)
				w.handlers[op.A].active = false
				w.handlers[op.A].unreg()
			} else if op.A < len(w.handlers) && w.handlers[op.A].unreg != nil {
				// the same registration is cancelled a second time (the loop's own TimeoutContext does this after a
				// timeout event): nothing is registered under it any more, so nothing may change
				w.logf("op%d unregister h%d again", i, op.A)
				w.handlers[op.A].unreg()
				w.st.Faults["unregistered-twice"]++
			}
		}
	}
	for i := 0; i < 6000 && len(w.q) > 0 && w.res.Violation == nil; i++ {
		w.tickOnce()
	}
	if w.res.Violation == nil && len(w.q) == 0 && w.el.Tick(w.ctx) {
		w.viol("C14/dup", "the loop still holds an event after the reference queue is empty")
	}
}

// ---- run mode: a real Run goroutine as the consumer ---------------------------------------------------

// modelDrain lets the model's consumer run until the queue is empty or it stalls (caller holds no lock;
// the real consumer has already settled thanks to synctest.Wait).
func (w *elWorld) modelDrain() {
	for w.consumerOn && !w.stalledModel && len(w.q) > 0 {
		e, _ := w.modelDispatchBegin()
		if e == nil {
			w.tickerStarted()
			continue
		}
		if evType(e) == 2 && w.modelStallArmed && len(w.expected[len(w.expected)-1].prio)+len(w.expected[len(w.expected)-1].norm) > 0 {
			// the real consumer is now blocked inside a handler of this event; the rest of the dispatch
			// (remaining handlers, deferred release) happens after the release
			hasOrdinary := false
			for _, h := range w.handlers {
				if h.active && h.typ == 2 && !h.inAdd {
					hasOrdinary = true
				}
			}
			if hasOrdinary {
				w.modelStallArmed = false
				w.modelStalledOn = e
				w.stalledModel = true
				w.everStalled = true
				return
			}
		}
		w.modelDispatchEnd(e)
	}
}

func (w *elWorld) runConsumer() {
	// run-mode state lives in the struct fields declared below
	done := make(chan struct{})
	w.consumerOn = true
	w.register(3, 0) // one ordinary handler for ticker events
	for t := 0; t < 3; t++ {
		w.register(t, 0) // and one per event type that stays: every event is observably dispatched
	}
	w.parkCh = make(chan struct{})
	w.pushCh = make(chan struct{})
	eventloop.VerifYield = func(point string) {
		if point == "pushed" {
			w.mu.Lock()
			park := w.pushArmed && goid() == w.pGID
			if park {
				w.pushArmed = false
				w.pushParked = true
			}
			w.mu.Unlock()
			if park {
				<-w.pushCh
			}
			return
		}
		if point != "run-idle" {
			return
		}
		w.mu.Lock()
		park := w.parkArmed
		if park {
			w.parkArmed = false
			w.parked = true
		}
		w.mu.Unlock()
		if park {
			<-w.parkCh
		}
	}
	defer func() { eventloop.VerifYield = nil }()
	go func() {
		w.el.Run(w.ctx)
		close(done)
	}()
	synctest.Wait()
	settle := func() {
		synctest.Wait()
		w.mu.Lock()
		if !w.stalledModel {
			w.modelDrain()
		}
		if !w.stalledModel && w.consumerOn && len(w.dispOrder)-len(w.tickSeenDisp()) != len(w.popOrder) {
			w.viol("C14/lost", "the consumer is idle but %d added events have not been handled (%d dispatched, the reference dispatched %d)", len(w.popOrder)-(len(w.dispOrder)-len(w.tickSeenDisp())), len(w.dispOrder)-len(w.tickSeenDisp()), len(w.popOrder))
		}
		if w.stalled != w.stalledModel {
			w.viol("C14/order", "the consumer is blocked inside a handler: %v; the reference expects: %v (an event was lost, duplicated or reordered)", w.stalled, w.stalledModel)
		}
		if w.lateObserver != "" {
			w.viol("C14/priority", "%s", w.lateObserver)
		}
		w.mu.Unlock()
	}
	tickerOn := false
	for i, op := range w.p.Ops {
		if w.res.Violation != nil {
			break
		}
		w.st.Steps++
		switch op.Op {
		case "add":
			e := mkEv(op.A, w.nextEv)
			w.nextEv++
			w.logf("op%d add %T%v", i, e, e)
			w.mu.Lock()
			w.add(e)
			w.mu.Unlock()
			w.el.AddEvent(e)
			settle()
		case "delay":
			e := mkEv(op.A, w.nextEv)
			w.nextEv++
			w.logf("op%d defer %T%v until type %d", i, e, e, op.B)
			w.mu.Lock()
			w.waiting[op.B] = append(w.waiting[op.B], e)
			w.mu.Unlock()
			w.delayReal(op.B, e)
			w.st.Probes["c14-deferred"]++
		case "register":
			if len(w.handlers) < 24 && !w.stalledModel {
				w.logf("op%d register h%d type=%d flags=%d", i, len(w.handlers), op.A, op.B&3)
				w.mu.Lock()
				w.register(op.A, op.B&3)
				w.mu.Unlock()
			}
		case "pushrace":
			if w.stalledModel || w.canceled {
				continue
			}
			{
				e := mkEv(op.A, w.nextEv)
				w.nextEv++
				w.logf("op%d pushrace %T%v", i, e, e)
				w.mu.Lock()
				w.add(e)
				w.pushArmed, w.pGID = true, 0
				w.mu.Unlock()
				pdone := make(chan struct{})
				go func() {
					w.mu.Lock()
					w.pGID = goid()
					w.mu.Unlock()
					w.el.AddEvent(e)
					close(pdone)
				}()
				synctest.Wait() // the producer is held just behind its push; the consumer has done all it can
				w.mu.Lock()
				held := w.pushParked
				w.pushArmed, w.pushParked = false, false
				w.mu.Unlock()
				if held {
					w.st.Faults["producer-held-after-push"]++
					w.pushCh <- struct{}{}
				}
				<-pdone
				settle()
			}
		case "idlerace":
			if w.stalledModel || w.canceled {
				continue
			}
			w.logf("op%d idlerace", i)
			w.mu.Lock()
			w.parkArmed = true
			w.mu.Unlock()
			e1 := mkEv(op.A, w.nextEv)
			w.nextEv++
			w.mu.Lock()
			w.add(e1)
			w.mu.Unlock()
			w.el.AddEvent(e1)
			settle() // the consumer handled e1, found the queue empty and is parked before waiting
			w.mu.Lock()
			parked := w.parked
			w.mu.Unlock()
			if parked && w.res.Violation == nil && !w.stalledModel {
				e2 := mkEv(op.B, w.nextEv)
				w.nextEv++
				w.mu.Lock()
				w.add(e2)
				w.mu.Unlock()
				w.el.AddEvent(e2) // pushed in the window
				w.mu.Lock()
				w.parked = false
				w.mu.Unlock()
				w.parkCh <- struct{}{}
				w.st.Faults["add-in-idle-window"]++
				settle()
			} else {
				w.mu.Lock()
				w.parkArmed = false
				if w.parked {
					w.parked = false
					w.mu.Unlock()
					w.parkCh <- struct{}{}
				} else {
					w.mu.Unlock()
				}
			}
		case "idlecancel":
			if w.stalledModel || w.canceled || !w.consumerOn {
				continue
			}
			// Only where handling the two events adds nothing further: what is added (or released from a deferral) after
			// the cancellation may or may not be handled, depending on which of the two ready cases Go's select picks.
			quiet := true
			w.mu.Lock()
			for t := range w.waiting {
				if len(w.waiting[t]) > 0 || len(w.waitingLate[t]) > 0 {
					quiet = false
				}
			}
			for _, h := range w.handlers {
				if h.active && h.acts {
					quiet = false
				}
			}
			if w.stallArmed || w.modelStallArmed {
				quiet = false // the consumer would block inside the handler of one of the two events
			}
			w.mu.Unlock()
			if !quiet {
				w.st.Probes["c14-idlecancel-skipped"]++
				continue
			}
			w.logf("op%d idlecancel", i)
			w.mu.Lock()
			w.parkArmed = true
			w.mu.Unlock()
			e1 := mkEv(op.A, w.nextEv)
			w.nextEv++
			w.mu.Lock()
			w.add(e1)
			w.mu.Unlock()
			w.el.AddEvent(e1)
			settle()
			w.mu.Lock()
			parked := w.parked
			w.mu.Unlock()
			if parked && w.res.Violation == nil && !w.stalledModel {
				e2 := mkEv(op.B, w.nextEv)
				w.nextEv++
				w.mu.Lock()
				w.add(e2)
				w.mu.Unlock()
				w.el.AddEvent(e2) // pushed in the window ...
				w.canceled = true
				w.cancel() // ... and the loop told to stop: the event was added before, so it is still handled
				w.mu.Lock()
				w.parked = false
				w.mu.Unlock()
				w.parkCh <- struct{}{}
				w.st.Faults["add-and-cancel-in-idle-window"]++
				settle()
				w.consumerOn = false
				w.st.Probes["c14-cancelled"]++
			} else {
				w.mu.Lock()
				w.parkArmed = false
				if w.parked {
					w.parked = false
					w.mu.Unlock()
					w.parkCh <- struct{}{}
				} else {
					w.mu.Unlock()
				}
			}
		case "unregister":
			if op.A >= 4 && op.A < len(w.handlers) && w.handlers[op.A].active && w.handlers[op.A].typ != 3 && !w.stalledModel {
				w.logf("op%d unregister h%d", i, op.A)
				w.mu.Lock()
				w.handlers[op.A].active = false
				w.mu.Unlock()
				w.handlers[op.A].unreg()
			} else if op.A >= 4 && op.A < len(w.handlers) && !w.handlers[op.A].active && w.handlers[op.A].unreg != nil && !w.stalledModel {
				w.logf("op%d unregister h%d again", i, op.A)
				w.handlers[op.A].unreg()
				w.st.Faults["unregistered-twice"]++
			}
		case "stall":
			if !w.stalledModel && !w.canceled {
				w.mu.Lock()
				w.stallArmed, w.modelStallArmed = true, true
				w.mu.Unlock()
				w.logf("op%d stall armed", i)
			}
		case "release":
			if w.stalledModel {
				w.logf("op%d release", i)
				w.releaseConsumer()
				settle()
			}
		case "sleep":
			if tickerOn && !w.stalledModel {
				w.logf("op%d sleep %dms", i, op.A)
				time.Sleep(time.Duration(op.A) * time.Millisecond)
				w.sleptMs += op.A
				settle()
			}
		case "ticker":
			if !tickerOn && !w.stalledModel && !w.canceled {
				tickerOn = true
				w.tickerMs = op.A
				w.logf("op%d ticker every %dms", i, op.A)
				w.mu.Lock()
				w.modelPush(nil)
				w.mu.Unlock()
				n := 0
				w.el.AddTicker(time.Duration(op.A)*time.Millisecond, func(time.Time) any {
					n++
					return evT{100000 + n}
				})
				settle()
			}
		case "cancel":
			if !w.canceled {
				w.logf("op%d cancel", i)
				if w.stalledModel && op.A == 1 {
					// cancelled first, released afterwards: the events queued behind the blocked handler are still
					// handled, in order
					w.canceled = true
					w.cancel()
					synctest.Wait()
					w.st.Faults["cancelled-while-handler-blocked"]++
					w.releaseConsumer()
				} else if w.stalledModel {
					w.releaseConsumer()
				}
				w.canceled = true
				w.cancel()
				settle() // events present at cancel are still handled
				w.consumerOn = false
				w.st.Probes["c14-cancelled"]++
			}
		}
	}
	if w.stalledModel {
		w.releaseConsumer()
		settle()
	}
	if !w.canceled {
		w.cancel()
		settle()
	}
	<-done
}

func (w *elWorld) releaseConsumer() {
	w.mu.Lock()
	e := w.modelStalledOn
	w.stalledModel = false
	w.stalled = false
	w.modelStalledOn = nil
	w.mu.Unlock()
	w.gate <- struct{}{}
	synctest.Wait()
	w.mu.Lock()
	w.modelDispatchEnd(e)
	w.mu.Unlock()
}

// tickerStarted: the loop has handled its start-ticker entry; tick events are produced by the loop's own
// goroutine, so the model learns them from the observation side (they are checked for order and
// multiplicity, and against the elapsed fake time).
func (w *elWorld) tickerStarted() { w.st.Probes["c14-ticker-started"]++ }

// ---- comparison -----------------------------------------------------------------------------------------

func (w *elWorld) compare() {
	if w.res.Violation != nil {
		return
	}
	st := w.st
	// ticker events are added by the loop itself: take them out of the generic comparison
	tickSeen := w.tickSeen
	var disp []int
	for _, id := range w.dispOrder {
		if id < 100000 {
			disp = append(disp, id)
		}
	}
	// every expected (event, phase) group: each registered handler exactly once, prioritised first
	seenKeys := map[elKey]bool{}
	for _, g := range w.expected {
		seenKeys[g.key] = true
		got := w.actual[g.key]
		want := len(g.prio) + len(g.norm)
		if len(got) < want {
			w.viol("C14/lost", "event %d (%s) was handled by %d of the %d handlers registered for it", g.key.ev, phase(g.key.inAdd), len(got), want)
			return
		}
		seen := map[int]bool{}
		normStarted := false
		for _, h := range got {
			if seen[h] {
				w.viol("C14/dup", "handler h%d ran twice for event %d (%s)", h, g.key.ev, phase(g.key.inAdd))
				return
			}
			seen[h] = true
			switch {
			case g.prio[h]:
				if normStarted {
					w.viol("C14/priority", "prioritised handler h%d ran after an ordinary handler for event %d (%s)", h, g.key.ev, phase(g.key.inAdd))
					return
				}
			case g.norm[h]:
				normStarted = true
			default:
				w.viol("C14/dup", "handler h%d ran for event %d (%s) although it was not registered for it at that moment", h, g.key.ev, phase(g.key.inAdd))
				return
			}
		}
		st.Probes["c14-group-compared"]++
	}
	for k := range w.actual {
		if !seenKeys[k] && len(w.actual[k]) > 0 {
			w.viol("C14/dup", "event %d was handled (%s) although the reference never dispatched it (dropped, or handled twice)", k.ev, phase(k.inAdd))
			return
		}
	}
	// FIFO: events are dispatched in the order they were added
	var wantOrder []int
	for _, id := range w.popOrder {
		if len(w.actual[elKey{id, false}]) > 0 {
			wantOrder = append(wantOrder, id)
		}
	}
	if len(wantOrder) != len(disp) {
		w.viol("C14/order", "%d events were dispatched to handlers, the reference dispatched %d", len(disp), len(wantOrder))
		return
	}
	for i := range wantOrder {
		if wantOrder[i] != disp[i] {
			w.viol("C14/order", "dispatch number %d handled event %d, the reference (FIFO) handles event %d there", i+1, disp[i], wantOrder[i])
			return
		}
	}
	st.Probes["c14-fifo-compared"] += len(disp)
	// overflow: only the oldest pending events are dropped, and exactly those are reported
	w.lg.mu.Lock()
	drops := append([]string(nil), w.lg.drops...)
	w.lg.mu.Unlock()
	{
		if len(drops) != len(w.dropped) {
			w.viol("C14/drop-report", "%d events were dropped on overflow, %d drop reports were logged", len(w.dropped), len(drops))
			return
		}
		for i := range drops {
			st.Probes["c14-drop-compared"]++
			if drops[i] != w.dropped[i] {
				w.viol("C14/drop-report", "overflow number %d dropped event %s (the oldest pending one), but the log reports %s as dropped (capacity %d)", i+1, w.dropped[i], drops[i], w.capQ)
				return
			}
		}
	}
	// ticker: events numbered 1,2,3,... each handled once, in order (gaps only by overflow), and no more
	// than the elapsed fake time allows
	last := 100000
	for _, id := range tickSeen {
		if id <= last {
			w.viol("C14/ticker", "ticker event %d handled after event %d", id-100000, last-100000)
			return
		}
		last = id
	}
	if w.tickerMs > 0 {
		max := 1 + w.sleptMs/w.tickerMs
		if len(tickSeen) > max {
			w.viol("C14/ticker", "%d ticker events were handled, at most %d can have fired in %d ms with interval %d ms", len(tickSeen), max, w.sleptMs, w.tickerMs)
			return
		}
		if len(drops) == 0 && w.sleptMs > 0 && len(tickSeen) < max && !w.everStalled {
			st.Probes["c14-ticker-fewer-than-max"]++
		}
		st.Probes["c14-ticker-compared"] += len(tickSeen)
	}
}

func phase(inAdd bool) string {
	if inAdd {
		return "in AddEvent"
	}
	return "dispatch"
}

func (w *elWorld) tickSeenDisp() []int {
	var out []int
	for _, id := range w.dispOrder {
		if id >= 100000 {
			out = append(out, id)
		}
	}
	return out
}
