package zz_verifsim

import (
	"context"
	"fmt"
	"io"
	"slices"
	"strings"
	"sync/atomic"
	"testing"
	"testing/synctest"
	"time"

	"github.com/relab/hotstuff"
	"github.com/relab/hotstuff/security/cert"
	"github.com/relab/hotstuff/internal/proto/clientpb"
)

// Result is what one simulated run reports.
type Result struct {
	Seed      uint64     `json:"seed"`
	Violation *Violation `json:"violation,omitempty"`
	Stats     *Stats     `json:"stats"`
	States    []uint64   `json:"states,omitempty"`
	Summary   string     `json:"summary"`
	WallMs    float64    `json:"wallMs"`
	Harness   string     `json:"harnessError,omitempty"`
}

// RunPlan executes the plan inside a synctest bubble and returns what the oracles saw.
func RunPlan(t *testing.T, p *Plan, want []string, logw io.Writer) *Result {
	switch p.World {
	case "eventloop":
		return runEventLoopWorld(t, p, want, logw)
	case "cmdcache":
		return runCmdCacheWorld(t, p, want, logw)
	case "puppet":
		return runPuppetWorld(t, p, want, logw)
	case "leader":
		return runLeaderWorld(t, p, want, logw)
	case "store":
		return runStoreWorld(t, p, want, logw)
	}
	res := &Result{Seed: p.Seed}
	start := time.Now()
	var w *World
	func() {
		defer func() {
			if r := recover(); r != nil {
				msg := fmt.Sprint(r)
				if strings.Contains(msg, "deadlock") && w != nil && w.ended {
					// goroutines left blocked at the end of the bubble (abandoned client calls)
					w.probe("bubble-leftover")
					return
				}
				panic(r)
			}
		}()
		synctest.Test(t, func(t *testing.T) {
			w = newWorld(p, want, logw)
			cert.VerifQCOrder = nil
			if p.knob("qcorder", 0) == 1 {
				// hook H1: the order in which VerifyAggregateQC examines the attested QCs (Go map order in the shipped
				// build, signer order under the tag) is drawn per call: as sorted, reversed, or rotated
				var ctr atomic.Uint64
				cert.VerifQCOrder = func(ids []hotstuff.ID) {
					r := mix(p.Inner, 0x71636f72, ctr.Add(1))
					if len(ids) < 2 || r%3 == 0 {
						return
					}
					if r%3 == 1 {
						slices.Reverse(ids)
						return
					}
					k := int(r/3) % len(ids)
					rot := append(append([]hotstuff.ID{}, ids[k:]...), ids[:k]...)
					copy(ids, rot)
				}
				defer func() { cert.VerifQCOrder = nil }()
			}
			if err := w.setup(); err != nil {
				res.Harness = err.Error()
				return
			}
			w.runLoop()
			w.finish()
		})
	}()
	if w != nil {
		res.Violation = w.viol
		res.Stats = w.stats
		for s := range w.stats.States {
			res.States = append(res.States, s)
		}
		res.Summary = fmt.Sprintf("n=%d %s %s cache=%d wire=%v leader=%s byz=%d faults=%d views=%d commits=%d steps=%d",
			p.N, p.Ruleset, p.Crypto, p.Cache, p.Wire, p.Leader, len(p.Byz), len(p.Faults), w.stats.MaxView, w.stats.Commits, w.step)
	}
	res.WallMs = float64(time.Since(start).Microseconds()) / 1000
	return res
}

func newWorld(p *Plan, want []string, logw io.Writer) *World {
	w := &World{plan: p, stats: newStats(), logw: logw, want: map[string]bool{}}
	for _, x := range want {
		w.want[x] = true
	}
	w.t0 = time.Now()
	w.async = !p.SyncVerify
	if p.knob("memoVerify", 0) == 1 {
		w.memo = map[[32]byte]memoVerdict{}
	}
	w.driverGID = goid()
	w.ctx, w.cancel = context.WithCancel(context.Background())
	w.net = &netState{linkDown: map[[2]int]time.Duration{}, sent: map[[2]int]uint64{}}
	w.reg = newRegistry(w)
	return w
}

func (w *World) setup() error {
	p := w.plan
	if err := w.buildNodes(); err != nil {
		return err
	}
	w.orc = newOracle(w)
	w.adv = newAdversary(w)
	attachMonitors(w)
	if p.Clients > 0 {
		w.clients = newClientSet(w)
	}
	// timed faults
	for i := range p.Faults {
		f := p.Faults[i]
		w.at(time.Duration(f.AtMs)*time.Millisecond, "fault", func() { w.applyFault(f) })
	}
	for i := range p.Inject {
		in := p.Inject[i]
		w.at(time.Duration(in.AtMs)*time.Millisecond, "inject", func() { w.adv.inject(in) })
	}
	if p.Sync != nil {
		w.at(time.Duration(p.HealAtMs)*time.Millisecond, "heal", func() { w.heal() })
	}
	// start every replica at time 0, in slot order
	for _, nd := range w.nodes {
		nd := nd
		w.at(0, "start", func() {
			if w.kauri() {
				// the replica is connected to its peers (Kauri waits for this before it disseminates)
				nd.el.AddEvent(hotstuff.ReplicaConnectedEvent{Ctx: w.ctx})
				w.guard(nd, "tick", func() { nd.el.Tick(w.ctx) })
			}
			w.topUp(nd)
			w.guard(nd, "start", func() { nd.sync.Start(w.ctx) })
			w.scheduleProcess(nd, 0)
		})
	}
	return nil
}

func (w *World) finish() {
	w.ended = true
	// drain: background verifications finish, and every live honest replica handles what is already
	// queued (nothing is sent any more); repeated because each can feed the other
	for round := 0; round < 6 && w.viol == nil; round++ {
		progress := false
		if w.async {
			synctest.Wait()
			w.pmu.Lock()
			w.parkedAll = append(w.parkedAll, w.parkedNew...)
			w.parkedNew = nil
			w.pmu.Unlock()
			for i := 0; i < len(w.parkedAll); i++ {
				if !w.parkedAll[i].released {
					w.releaseParked(w.parkedAll[i])
					progress = true
				}
			}
		}
		for _, nd := range w.nodes {
			nd.drained = false
			if nd.crashed || !nd.honest {
				continue
			}
			for i := 0; i < 2000; i++ {
				handled := false
				nd.curEvent = nil
				w.guard(nd, "drain", func() { handled = nd.el.Tick(w.ctx) })
				if !handled || nd.crashed {
					nd.drained = !nd.crashed
					break
				}
				progress = true
				w.step++
				w.afterStep(nd)
				if w.viol != nil {
					break
				}
			}
		}
		if !progress {
			break
		}
	}
	for _, f := range w.hooks.atEnd {
		f()
	}
	if w.clients != nil {
		w.clients.shutdown()
	}
	w.cancel()
	synctest.Wait()
}

func (w *World) applyFault(f Fault) {
	switch f.Kind {
	case "partition":
		g := map[int]int{}
		for i, grp := range f.Groups {
			for _, a := range grp {
				if a < 0 {
					g[a] = i // a twin listed on its own: split brain
					w.fault("twin-split-partition")
				}
			}
		}
		for i, grp := range f.Groups {
			for _, a := range grp {
				if a < 0 {
					continue
				}
				g[a] = i
				if _, ok := g[-a]; !ok {
					g[-a] = i // a twin stays with its primary unless listed separately
				}
			}
		}
		w.net.group = g
		w.fault("partition")
		w.logf("FAULT partition %v", f.Groups)
	case "heal":
		if w.net.group != nil {
			w.fault("heal")
		}
		w.net.group = nil
		w.logf("FAULT heal")
	case "pause":
		if nd := w.primary(f.Node); nd != nil && !w.syncPhaseFor(nd) {
			nd.pausedUntil = w.now() + time.Duration(f.ForMs)*time.Millisecond
			w.fault("pause")
			w.logf("FAULT pause n%d for %dms", f.Node, f.ForMs)
		}
	case "crash":
		if nd := w.primary(f.Node); nd != nil {
			nd.crashed = true
			w.fault("crash")
			w.logf("FAULT crash n%d", f.Node)
		}
	case "restore":
		if nd := w.primary(f.Node); nd != nil && !nd.crashed {
			// re-store up to ForMs of the most recent blocks this replica already holds, oldest first
			var held []*blockInfo
			for i := len(w.reg.order) - 1; i >= 1 && len(held) < 6; i-- {
				if _, ok := nd.bc.LocalGet(w.reg.order[i].b.Hash()); ok {
					held = append(held, w.reg.order[i])
				}
			}
			n := 0
			for i := len(held) - 1; i >= 0 && n < f.ForMs; i-- {
				if b, ok := nd.bc.LocalGet(held[i].b.Hash()); ok {
					nd.bc.Store(b)
					n++
				}
			}
			if n > 0 {
				w.fault("block-stored-again")
				w.logf("FAULT restore n%d stores %d known blocks again", f.Node, n)
			}
		}
	case "slownode":
		if nd := w.primary(f.Node); nd != nil {
			nd.slowUntil = w.now() + time.Duration(f.ForMs)*time.Millisecond
			nd.slowExtra = time.Duration(f.DelayMs) * time.Millisecond
			w.fault("slownode")
			w.logf("FAULT slownode n%d +%dms for %dms", f.Node, f.DelayMs, f.ForMs)
		}
	case "linkdown":
		until := w.now() + time.Duration(f.ForMs)*time.Millisecond
		w.net.linkDown[[2]int{f.Node, f.Peer}] = until
		w.fault("linkdown")
		w.logf("FAULT linkdown n%d->n%d for %dms", f.Node, f.Peer, f.ForMs)
	}
}

func (w *World) primary(id int) *Node {
	if id < 1 || id > w.plan.N {
		return nil
	}
	return w.nodes[id-1]
}

// ---- command supply ------------------------------------------------------------------------------

const fillerClient = 9999

func fillerCmd(seq uint64) *clientpb.Command {
	return &clientpb.Command{ClientID: fillerClient, SequenceNumber: seq, Data: []byte(fmt.Sprintf("f%d", seq))}
}

// topUp keeps nd's command cache saturated ("client commands are available"): the filler client
// broadcasts its next commands to all replicas until nd holds a few fresh batches.
func (w *World) topUp(nd *Node) {
	if !w.plan.Filler {
		return
	}
	need := w.plan.Batch * 4
	for i := 0; i < 64 && nd.cache.VerifFreshCount() < need; i++ {
		w.fill++
		cmd := fillerCmd(w.fill)
		for _, x := range w.nodes {
			if !x.crashed {
				x.cache.Add(cmd)
			}
		}
	}
}
