package zz_verifsim

import (
	"github.com/relab/hotstuff/protocol/comm"
	"github.com/relab/hotstuff/internal/proto/hotstuffpb"
	"github.com/relab/hotstuff/internal/proto/kauripb"
	"crypto/sha256"
	"fmt"

	"google.golang.org/protobuf/proto"

	"github.com/relab/hotstuff"
	"github.com/relab/hotstuff/security/cert"
)

func ruleName(nd *Node) string {
	if nd.cfg.HasAggregateQC() {
		return "aggregate"
	}
	return "simple"
}

// ---- C08: a timeout certificate forms exactly when a quorum timed out in that view ------------------

type c08node struct {
	t       map[hotstuff.View]map[hotstuff.ID]bool // T_i(v): senders of correct timeouts for v handled while i had not left v
	due     []hotstuff.View                        // views whose quorum was completed in the current step
	tcView  hotstuff.View
	msgTC   map[hotstuff.View]bool // TC views that arrived inside the message handled in the current step
	startView hotstuff.View        // the replica's view when the current step began
	qcOf    map[hotstuff.View]map[hotstuff.ID]hotstuff.Hash // the block certified by the QC each counted timeout attests
}

func monC08(w *World) {
	au, err := newAuditor(w)
	if err != nil {
		panic("harness: auditor: " + err.Error())
	}
	st := map[*Node]*c08node{}
	get := func(nd *Node) *c08node {
		if st[nd] == nil {
			st[nd] = &c08node{t: map[hotstuff.View]map[hotstuff.ID]bool{}, msgTC: map[hotstuff.View]bool{}}
		}
		return st[nd]
	}
	add := func(nd *Node, s *c08node, v hotstuff.View, id hotstuff.ID) {
		if s.t[v] == nil {
			s.t[v] = map[hotstuff.ID]bool{}
		}
		if s.t[v][id] {
			w.probe("c08-duplicate-timeout")
			return
		}
		s.t[v][id] = true
		if len(s.t[v]) == w.orc.q {
			s.due = append(s.due, v)
			w.probe("c08-quorum-completed")
			if v > nd.states.View() {
				w.probe("c08-quorum-for-future-view")
			}
		}
	}
	w.hooks.onHandle = append(w.hooks.onHandle, func(nd *Node, ev any) {
		if !nd.honest {
			return
		}
		s := get(nd)
		s.startView = nd.states.View()
		switch e := ev.(type) {
		case hotstuff.TimeoutMsg:
			if tc, ok := e.SyncInfo.TC(); ok {
				s.msgTC[tc.View()] = true
			}
			cur := nd.states.View()
			if e.View < cur {
				w.probe("c08-timeout-for-left-view")
				return
			}
			if e.ViewSignature == nil || !w.orc.validSigners(e.ViewSignature, sameMsg(e.View.ToBytes()))[e.ID] || e.ViewSignature.Participants().Len() != 1 {
				w.probe("c08-badly-signed-timeout")
				return
			}
			if nd.cfg.HasAggregateQC() {
				if e.MsgSignature == nil || !w.orc.validSigners(e.MsgSignature, sameMsg(e.ToBytes()))[e.ID] || e.MsgSignature.Participants().Len() != 1 {
					w.probe("c08-badly-signed-timeout")
					return
				}
				if _, ok := e.SyncInfo.QC(); !ok {
					// with aggregate QCs a timeout message is a signed statement about the sender's high QC: one that
					// names none is not a timeout message of this mode (honest replicas always attach theirs)
					w.probe("c08-timeout-without-qc")
					return
				}
			}
			if qc, ok := e.SyncInfo.QC(); ok {
				if s.qcOf == nil {
					s.qcOf = map[hotstuff.View]map[hotstuff.ID]hotstuff.Hash{}
				}
				if s.qcOf[e.View] == nil {
					s.qcOf[e.View] = map[hotstuff.ID]hotstuff.Hash{}
				}
				if _, dup := s.qcOf[e.View][e.ID]; !dup {
					s.qcOf[e.View][e.ID] = qc.BlockHash()
				}
			}
			add(nd, s, e.View, e.ID)
		case hotstuff.NewViewMsg:
			if tc, ok := e.SyncInfo.TC(); ok {
				s.msgTC[tc.View()] = true
			}
		}
	})
	// the replica's own timeout for the view it is in
	w.hooks.onSign = append(w.hooks.onSign, func(nd *Node, msg []byte, sig hotstuff.QuorumSignature) {
		if !nd.honest || len(msg) != 8 {
			return
		}
		v := hotstuff.View(leU64(msg))
		if v >= nd.states.View() {
			add(nd, get(nd), v, nd.id)
		}
	})
	w.hooks.afterStep = append(w.hooks.afterStep, func(nd *Node) {
		if !nd.honest || w.viol != nil {
			return
		}
		s := get(nd)
		rule := ruleName(nd)
		// (<=) the step that completed a quorum of correct timeouts for v ends with the replica beyond v
		for _, v := range s.due {
			if nd.states.View() <= v {
				// with aggregate QCs: none of the blocks certified by the QCs that the timeouts attest is in this replica's
				// store (and it could not fetch them in this step, or it would hold them now)
				where := ""
				if rule == "aggregate" && len(s.qcOf[v]) > 0 {
					none := !s.t[v][nd.id] // its own timeout attests a QC for a block it holds
					for id := 1; id <= w.plan.N; id++ {
						if h, ok := s.qcOf[v][hotstuff.ID(id)]; ok {
							if _, have := nd.bc.LocalGet(h); have {
								none = false
							}
						}
					}
					if none {
						where = "@attested-blocks-unavailable"
					}
				}
				w.violate("C08", "C08/"+rule+"/missed"+where, nd,
					"%s has handled correctly signed timeouts for view %d from %d distinct replicas while it had not left that view, and is still in view %d",
					nd, v, len(s.t[v]), nd.states.View())
				break
			}
			w.probe("c08-quorum-led-to-advance")
		}
		s.due = s.due[:0]
		// (=>) a certificate it assembled itself is built from those timeouts only and verifies elsewhere
		if tc := nd.states.HighTC(); tc.View() > s.tcView {
			// (a certificate for a view the replica had already left when the step began is outside the statement)
			if !s.msgTC[tc.View()] && tc.Signature() != nil && tc.View() >= s.startView {
				w.probe("c08-self-assembled-tc")
				ok := true
				tc.Signature().Participants().ForEach(func(id hotstuff.ID) {
					if !s.t[tc.View()][id] {
						ok = false
					}
				})
				if !ok || len(s.t[tc.View()]) < w.orc.q {
					w.violate("C08", "C08/"+rule+"/unsound", nd, "%s assembled a timeout certificate for view %d with signers %v, but correct timeouts for that view reached it only from %d replicas",
						nd, tc.View(), participantsOf(tc.Signature()), len(s.t[tc.View()]))
				}
				c, p, _ := au.each(func(x *cert.Authority) error { return x.VerifyTimeoutCert(tc) })
				if !(c && p) && w.viol == nil {
					w.violate("C08", "C08/"+rule+"/reject-elsewhere", nd, "the timeout certificate for view %d assembled by %s does not verify at another replica", tc.View(), nd)
				}
			}
			s.tcView = tc.View()
		}
		for k := range s.msgTC {
			delete(s.msgTC, k)
		}
	})
	// every timeout/aggregate certificate in an honest replica's output verifies at every replica
	w.hooks.onSend = append(w.hooks.onSend, func(from *Node, to hotstuff.ID, m *Msg) {
		if from == nil || !from.honest || m.forged || w.viol != nil {
			return
		}
		var si hotstuff.SyncInfo
		var agg *hotstuff.AggregateQC
		switch v := m.val.(type) {
		case hotstuff.NewViewMsg:
			si = v.SyncInfo
		case hotstuff.TimeoutMsg:
			si = v.SyncInfo
		case hotstuff.ProposeMsg:
			agg = v.AggregateQC
		}
		if a, ok := si.AggQC(); ok {
			agg = &a
		}
		rule := ruleName(from)
		if tc, ok := si.TC(); ok && tc.View() > 0 && tc.Signature() != nil {
			c, p, _ := au.each(func(x *cert.Authority) error { return x.VerifyTimeoutCert(tc) })
			w.probe("c08-output-tc-verified")
			if !(c && p) {
				w.violate("C08", "C08/"+rule+"/reject-elsewhere", from, "%s sends a timeout certificate for view %d that does not verify at another replica", from, tc.View())
			}
		}
		if agg != nil && agg.Sig() != nil {
			var e1, e2 error
			func() {
				defer func() { _ = recover() }()
				_, e1 = au.cached.VerifyAggregateQC(*agg)
				_, e2 = au.plain.VerifyAggregateQC(*agg)
			}()
			w.probe("c08-output-aggqc-verified")
			if e1 != nil || e2 != nil {
				w.violate("C08", "C08/aggregate/reject-elsewhere", from, "%s sends an aggregate certificate for view %d that does not verify at another replica", from, agg.View())
			}
		}
	})
}

// ---- C09: votes form a QC exactly when a quorum voted for that block ---------------------------------

type c09block struct {
	reached map[hotstuff.ID]bool // replicas whose valid signature over B reached collector i inside any vote, whatever the circumstances
	signers map[hotstuff.ID]bool // V_i(B): those that arrived with the block available and newer than the high QC
	void    bool                 // a vote arrived when B was not newer than the high QC: obligation void
	due     bool
	emitted bool
	hostile int
}

func monC09(w *World) {
	au, err := newAuditor(w)
	if err != nil {
		panic("harness: auditor: " + err.Error())
	}
	treeQCSeen := map[hotstuff.Hash]bool{}
	var treeDue []func()
	st := map[*Node]map[hotstuff.Hash]*c09block{}
	get := func(nd *Node, h hotstuff.Hash) *c09block {
		if st[nd] == nil {
			st[nd] = map[hotstuff.Hash]*c09block{}
		}
		if st[nd][h] == nil {
			st[nd][h] = &c09block{signers: map[hotstuff.ID]bool{}, reached: map[hotstuff.ID]bool{}}
		}
		return st[nd][h]
	}
	var pendingOwn []ownVote
	stateless := func() bool {
		switch w.plan.Leader {
		case "round-robin", "fixed", "scripted", "":
			return true
		}
		return false
	}
	count := func(nd *Node, b *hotstuff.Block, sig hotstuff.QuorumSignature) {
		cb := get(nd, b.Hash())
		if b.View() <= nd.states.HighQC().View() {
			cb.void = true // the collector may drop it as too old
			w.probe("c09-vote-for-old-block")
			return
		}
		if sig == nil || sig.Participants().Len() != 1 {
			cb.hostile++
			w.probe("c09-hostile-vote")
			return
		}
		vs := w.orc.validSigners(sig, sameMsg(b.ToBytes()))
		if len(vs) != 1 {
			cb.hostile++
			w.probe("c09-hostile-vote")
			return
		}
		for id := range vs {
			if cb.signers[id] {
				w.probe("c09-duplicate-vote")
			}
			cb.signers[id] = true
		}
		if len(cb.signers) >= w.orc.q && !cb.emitted && !cb.due {
			cb.due = true
			w.probe("c09-quorum-of-votes")
			if cb.hostile > 0 {
				w.probe("c09-quorum-despite-hostile-votes")
			}
		}
	}
	w.hooks.onHandle = append(w.hooks.onHandle, func(nd *Node, ev any) {
		if !nd.honest {
			return
		}
		switch e := ev.(type) {
		case hotstuff.VoteMsg:
			if rb := w.reg.get(e.PartialCert.BlockHash()); rb != nil {
				// (=>) is about whose signatures the certificate may contain: any valid signature over the block
				// that reached the collector, inside a well-formed or a hostile vote
				if sig := e.PartialCert.Signature(); sig != nil {
					for id := range w.orc.validSigners(sig, sameMsg(rb.ToBytes())) {
						get(nd, rb.Hash()).reached[id] = true
					}
				}
			}
			b, ok := nd.bc.LocalGet(e.PartialCert.BlockHash())
			if !ok {
				if !e.Deferred {
					w.probe("c09-vote-before-block")
					return // counted when it comes back as a deferred vote
				}
				w.probe("c09-deferred-vote-needs-fetch")
				// "before or after the block itself": a vote that waited for its block counts as soon as the
				// block can be had. If a fetch issued now is certain to succeed the vote must count; otherwise
				// the collector may or may not obtain the block and the vote is left out of the obligation.
				rb := w.reg.get(e.PartialCert.BlockHash())
				if rb == nil || w.kauri() || !w.fetchable(nd, rb.Hash()) {
					return
				}
				w.probe("c09-deferred-vote-fetchable")
				b = rb
			}
			if e.Deferred {
				w.probe("c09-deferred-vote-counted")
			}
			count(nd, b, e.PartialCert.Signature())
		case hotstuff.NewViewMsg:
			if w.kauri() && !e.FromNetwork && e.ID == 0 {
				// a certificate completed by a node of the aggregation tree
				if qc, ok := e.SyncInfo.QC(); ok {
					w.probe("c09-tree-qc-emitted")
					treeQCSeen[qc.BlockHash()] = true
					if backed, why := w.orc.qcBacked(qc); !backed {
						w.violate("C09", "C09/tree-unsound", nd, "%s completed a certificate for %s@%d in the aggregation tree that is not backed by a quorum: %s", nd, w.reg.sym(qc.BlockHash()), qc.View(), why)
						return
					}
					c, p, _ := au.each(func(x *cert.Authority) error { return x.VerifyQuorumCert(qc) })
					if !(c && p) {
						w.violate("C09", "C09/reject-elsewhere", nd, "the certificate for %s completed by tree node %s does not verify at another replica", w.reg.sym(qc.BlockHash()), nd)
					}
				}
				return
			}
			if e.FromNetwork || e.ID != nd.id {
				return
			}
			// the collector's own new certificate
			qc, ok := e.SyncInfo.QC()
			if !ok {
				return
			}
			w.probe("c09-qc-emitted")
			cb := get(nd, qc.BlockHash())
			cb.emitted = true
			bad := false
			n := 0
			if qc.Signature() != nil {
				qc.Signature().Participants().ForEach(func(id hotstuff.ID) {
					n++
					if !cb.reached[id] {
						bad = true
					}
				})
			}
			if bad || n < w.orc.q {
				w.violate("C09", "C09/unsound", nd, "%s emitted a certificate for %s with signers %v, but valid signatures over that block reached the collector only from %d replicas",
					nd, w.reg.sym(qc.BlockHash()), participantsOf(qc.Signature()), len(cb.reached))
				return
			}
			c, p, _ := au.each(func(x *cert.Authority) error { return x.VerifyQuorumCert(qc) })
			if !(c && p) {
				w.violate("C09", "C09/reject-elsewhere", nd, "the certificate for %s emitted by collector %s does not verify at another replica", w.reg.sym(qc.BlockHash()), nd)
			}
		}
	})
	// the collector's own vote is handed to the voting machine directly
	w.hooks.onSign = append(w.hooks.onSign, func(nd *Node, msg []byte, sig hotstuff.QuorumSignature) {
		if !nd.honest || len(msg) == 8 || !stateless() {
			return
		}
		var b *hotstuff.Block
		if ev, ok := nd.curEvent.(hotstuff.ProposeMsg); ok && ev.Block != nil && string(ev.Block.ToBytes()) == string(msg) {
			b = ev.Block
		} else {
			for i := len(w.reg.order) - 1; i >= 0 && i >= len(w.reg.order)-8; i-- {
				if string(w.reg.order[i].b.ToBytes()) == string(msg) {
					b = w.reg.order[i].b
				}
			}
		}
		if b == nil {
			// its own proposal: the block is registered when it is sent, later in this step
			pendingOwn = append(pendingOwn, ownVote{nd: nd, sig: sig, raw: append([]byte(nil), msg...), hqc: nd.states.HighQC().View()})
			return
		}
		if nd.leader.inner.GetLeader(b.View()+1) == nd.id {
			w.probe("c09-own-vote-collected")
			pendingOwn = append(pendingOwn, ownVote{nd: nd, b: b, sig: sig, void: b.View() <= nd.states.HighQC().View()})
		}
	})
	w.hooks.afterStep = append(w.hooks.afterStep, func(nd *Node) {
		// own votes are collected during the step; count them now that the block is stored
		keep := pendingOwn[:0]
		for _, ov := range pendingOwn {
			if ov.nd != nd {
				keep = append(keep, ov)
				continue
			}
			if ov.b == nil {
				h := hotstuff.Hash(sha256.Sum256(ov.raw))
				lb, ok := nd.bc.LocalGet(h)
				if !ok || nd.leader.inner.GetLeader(lb.View()+1) != nd.id {
					continue
				}
				w.probe("c09-own-vote-collected")
				ov.b, ov.void = lb, lb.View() <= ov.hqc
			}
			if lb, ok := nd.bc.LocalGet(ov.b.Hash()); ok {
				// the high QC may have moved in this very step; the vote was handed over before
				cb := get(nd, lb.Hash())
				if ov.void {
					cb.void = true
				}
				if vs := w.orc.validSigners(ov.sig, sameMsg(lb.ToBytes())); len(vs) == 1 && vs[nd.id] {
					cb.signers[nd.id] = true
					cb.reached[nd.id] = true
					if len(cb.signers) >= w.orc.q && !cb.emitted && !cb.due {
						cb.due = true
						w.probe("c09-quorum-of-votes")
					}
				}
			}
		}
		pendingOwn = keep
	})
	// The tree root, honest cluster: contributions for the block it is aggregating that verify and do not overlap,
	// arriving before its wait timer fires, add up; once they cover a quorum together with its own vote, it must
	// produce the certificate (with a Byzantine replica in the tree nothing is promised: one overlapping aggregate
	// from a hostile child is legitimately refused).
	if w.kauri() && len(w.plan.Byz) == 0 {
		type rootAgg struct {
			b       *hotstuff.Block
			signers map[hotstuff.ID]bool
			void    bool
			done    bool
		}
		roots := map[*Node]*rootAgg{}
		w.hooks.onSend = append(w.hooks.onSend, func(from *Node, _ hotstuff.ID, m *Msg) {
			if from == nil || !from.honest || m.forged || m.kind != "propose" {
				return
			}
			if pm, ok := m.val.(hotstuff.ProposeMsg); ok && pm.Block != nil && pm.Block.Proposer() == from.id {
				if r := roots[from]; r == nil || r.b.Hash() != pm.Block.Hash() {
					roots[from] = &rootAgg{b: pm.Block, signers: map[hotstuff.ID]bool{from.id: true}}
				}
			}
		})
		w.hooks.onHandle = append(w.hooks.onHandle, func(nd *Node, ev any) {
			r := roots[nd]
			if r == nil || r.void || r.done || w.viol != nil {
				return
			}
			switch e := ev.(type) {
			case comm.WaitTimerExpiredEvent:
				r.void = true // the aggregate is sent up / reset: later arrivals start afresh
			case hotstuff.ProposeMsg, hotstuff.TimeoutEvent:
				_ = e
			case *kauripb.Contribution:
				if hotstuff.View(e.View) != r.b.View() {
					return
				}
				sig := hotstuffpb.QuorumSignatureFromProto(e.Signature)
				if sig == nil {
					return
				}
				vs := w.orc.validSigners(sig, sameMsg(r.b.ToBytes()))
				if len(vs) == 0 || len(vs) != sig.Participants().Len() {
					r.void = true
					return
				}
				for id := 1; id <= w.plan.N; id++ {
					if vs[hotstuff.ID(id)] && r.signers[hotstuff.ID(id)] {
						r.void = true // overlapping aggregates are refused
						return
					}
				}
				for id := 1; id <= w.plan.N; id++ {
					if vs[hotstuff.ID(id)] {
						r.signers[hotstuff.ID(id)] = true
					}
				}
				w.probe("c09-tree-root-contribution-counted")
				if len(r.signers) >= w.orc.q {
					r.done = true
					root, b, n := nd, r.b, len(r.signers)
					w.probe("c09-tree-root-quorum")
					treeDue = append(treeDue, func() {
						if w.viol != nil || root.crashed || !root.quiescent() {
							return
						}
						if !treeQCSeen[b.Hash()] {
							w.violate("C09", "C09/tree-missed", root, "contributions covering %d distinct replicas (quorum %d) for %s were merged at the tree root %s before its timer fired, but it produced no certificate", n, w.orc.q, w.reg.sym(b.Hash()), root)
						}
					})
				}
			}
		})
	}
	sentUp := map[[2]uint64]map[hotstuff.ID]bool{}
	dupIn := map[[2]uint64]bool{}
	seenIn := map[string]bool{}
	w.hooks.onHandle = append(w.hooks.onHandle, func(nd *Node, ev any) {
		if c, ok := ev.(*kauripb.Contribution); ok && nd.honest {
			var sb []byte
			if c.Signature != nil {
				sb, _ = proto.Marshal(c.Signature)
			}
			k := fmt.Sprintf("%d/%d/%d/%x", nd.slot, c.View, c.ID, sb)
			if seenIn[k] {
				dupIn[[2]uint64{uint64(nd.slot), c.View}] = true
				w.probe("c09-tree-duplicate-contribution")
			}
			seenIn[k] = true
		}
	})
	// every partial aggregate a tree node sends up verifies: all its participants really signed one block of that view
	w.hooks.onContribution = append(w.hooks.onContribution, func(nd *Node, view hotstuff.View, sig hotstuff.QuorumSignature) {
		if !nd.honest || w.viol != nil {
			return
		}
		w.probe("c09-tree-contribution-checked")
		if sig == nil {
			w.probe("c09-tree-empty-contribution")
			return
		}
		n := sig.Participants().Len()
		ok := false
		cands := 0
		for i := len(w.reg.order) - 1; i >= 0; i-- {
			b := w.reg.order[i].b
			if b.View() != view {
				continue
			}
			cands++
			if len(w.orc.validSigners(sig, sameMsg(b.ToBytes()))) == n && n > 0 {
				ok = true
				break
			}
		}
		// what one tree node sends up for one view is pairwise disjoint: its parent refuses an aggregate that overlaps
		// what it has merged already, so a second contribution that repeats a signer loses the votes it carries
		// (claimed for honest trees, and as long as no contribution was delivered to this node twice in that view: the
		// node merges a repeated contribution of a child like a new one)
		if ok && len(w.plan.Byz) == 0 && !dupIn[[2]uint64{uint64(nd.slot), uint64(view)}] {
			key := [2]uint64{uint64(nd.slot), uint64(view)}
			if sentUp[key] == nil {
				sentUp[key] = map[hotstuff.ID]bool{}
			}
			overlap := hotstuff.ID(0)
			sig.Participants().ForEach(func(id hotstuff.ID) {
				if sentUp[key][id] && overlap == 0 {
					overlap = id
				}
			})
			if overlap != 0 {
				w.violate("C09", "C09/tree-overlap", nd, "%s sends a second partial aggregate for view %d up the tree that names replica %d again (now %v)", nd, view, overlap, participantsOf(sig))
				return
			}
			sig.Participants().ForEach(func(id hotstuff.ID) { sentUp[key][id] = true })
		}
		if !ok {
			w.violate("C09", "C09/tree-unsound", nd, "%s sends a partial aggregate for view %d naming %v up the tree, but those replicas did not all sign one block of that view (%d candidate blocks)",
				nd, view, participantsOf(sig), cands)
		}
	})
	w.hooks.atEnd = append(w.hooks.atEnd, func() {
		pendingOwn = nil
		for _, f := range treeDue {
			f()
		}
		if w.viol != nil {
			return
		}
		for _, nd := range w.nodes {
			if !nd.honest || !nd.quiescent() {
				continue
			}
			for _, bi := range w.reg.order { // registry order: deterministic
				cb := st[nd][bi.b.Hash()]
				if cb == nil || !cb.due || cb.emitted || cb.void {
					continue
				}
				if bi.b.View() <= nd.states.HighQC().View() {
					continue // overtaken: a higher certificate arrived first
				}
				w.violate("C09", "C09/missed", nd, "valid votes for %s from %d distinct replicas reached collector %s (block available, newer than its high QC at every arrival, %d hostile votes mixed in), but it never produced a certificate",
					bi.sym, len(cb.signers), nd, cb.hostile)
				return
			}
		}
	})
}

type ownVote struct {
	nd   *Node
	b    *hotstuff.Block
	sig  hotstuff.QuorumSignature
	void bool
	raw  []byte
	hqc  hotstuff.View
}
