#!/bin/bash
# usage: seed_eval.sh <out-dir> <seeded-id> <demo-src-file> <demo-dst-relpath> <go-test-pkg> <run-regex> <check ids...>
# Confirms a seeded change in the scratch worktree /tmp/scr and runs the given checks against it.
set -u
OUT=$1; ID=$2; DEMO=$3; DST=$4; PKG=$5; RUN=$6; shift 6
export GOFLAGS=-mod=mod GOPROXY=off GOSUMDB=off GOTOOLCHAIN=local
S=${SCR:-/tmp/scr}
cd $S && git checkout -q -- . && git clean -fdq
cp "$OUT/$DEMO" "$S/$DST"
echo "--- demo without the change (expect PASS)"
go1.26.8 test -vet=off -count=1 -run "$RUN" $PKG 2>&1 | tail -3
P="$OUT/patch.diff"; [ -f "$OUT/patch_ported_to_repaired_tree.diff" ] && P="$OUT/patch_ported_to_repaired_tree.diff"
git apply "$P" || { echo "patch does not apply"; exit 1; }
echo "--- build with the change"
go1.26.8 build ./... && echo build ok
echo "--- demo with the change (expect FAIL)"
go1.26.8 test -vet=off -count=1 -run "$RUN" $PKG 2>&1 | tail -4
rm -f "$S/$DST"
mkdir -p /verif/seeded/$ID
cp -n "$OUT"/* /verif/seeded/$ID/ 2>/dev/null   # never overwrite a meta.json that already carries the confirmation
cd /verif
for C in "$@"; do
  echo "--- check $C against the change"
  VERIF_REPO=$S VERIF_BIN=$S.test VERIF_BUDGET_S=${SEED_BUDGET:-45} VERIF_WORKERS=8 timeout 1200 ./check $C quick 2>&1 | grep -v "^KNOWN" | tail -3 | cut -c1-300
done
