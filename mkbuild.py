#!/usr/bin/env python3
"""Generate /verif/build/{overlay.json,go.mod,go.sum} for a repo root (default /repo)."""
import json, os, glob, sys, shutil
repo = os.environ.get('VERIF_REPO', '/repo')
verif = os.path.dirname(os.path.abspath(__file__))
build = os.environ.get('VERIF_BUILD_DIR') or os.path.join(verif, 'build')
os.makedirs(build, exist_ok=True)
ov = {}
for f in sorted(glob.glob(os.path.join(verif, 'sim', '*.go'))):
    ov[os.path.join(repo, 'zz_verifsim', os.path.basename(f))] = f
targets = {'server_access.go': 'server', 'network_access.go': 'network', 'rules_access.go': 'protocol/rules',
           'consensus_access.go': 'protocol/consensus', 'clientpb_access.go': 'internal/proto/clientpb',
           'eventloop_access.go': 'core/eventloop', 'synchronizer_access.go': 'protocol/synchronizer'}
for f in sorted(glob.glob(os.path.join(verif, 'sim', 'access', '*.go'))):
    d = targets[os.path.basename(f)]
    ov[os.path.join(repo, d, 'zz_verif_' + os.path.basename(f))] = f
def atomic(path, text):
    tmp = '%s.%d.tmp' % (path, os.getpid())
    open(tmp, 'w').write(text)
    os.replace(tmp, path)
atomic(os.path.join(build, 'overlay.json'), json.dumps({'Replace': ov}, indent=1))
mod = open(os.path.join(repo, 'go.mod')).read()
extra = '\nrequire (\n\tgithub.com/anishathalye/porcupine v1.3.0\n\tpgregory.net/rapid v1.3.0\n)\n'
atomic(os.path.join(build, 'go.mod'), mod + extra)
atomic(os.path.join(build, 'go.sum'), open(os.path.join(repo, 'go.sum')).read())
