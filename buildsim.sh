#!/bin/bash
# Rebuild the simulator binary from the current working tree of $VERIF_REPO (default /repo).
set -e
VERIF_DIR="$(cd "$(dirname "$0")" && pwd)"
REPO="${VERIF_REPO:-/repo}"
OUT="${VERIF_BIN:-$VERIF_DIR/build/sim.test}"
export GOFLAGS=-mod=mod GOPROXY=off GOSUMDB=off GOTOOLCHAIN=local
VERIF_REPO="$REPO" python3 "$VERIF_DIR/mkbuild.py"
cd "$REPO"
go1.26.8 test -c -tags verif -vet=off -modfile="$VERIF_DIR/build/go.mod" -overlay="$VERIF_DIR/build/overlay.json" -o "$OUT" ./zz_verifsim/
