#!/bin/bash
# Rebuild the simulator binary from the current working tree of $VERIF_REPO (default /repo).
set -e
VERIF_DIR="$(cd "$(dirname "$0")" && pwd)"
REPO="${VERIF_REPO:-/repo}"
OUT="${VERIF_BIN:-$VERIF_DIR/build/sim.test}"
export GOFLAGS=-mod=mod GOPROXY=off GOSUMDB=off GOTOOLCHAIN=local
# the generated overlay names files under $REPO: one directory per repository root, so that builds
# against scratch worktrees (seeded changes) never race with a build against /repo
BD="$VERIF_DIR/build"
if [ "$REPO" != "/repo" ]; then BD="$VERIF_DIR/build/alt$(echo "$REPO" | tr -c 'A-Za-z0-9\n' '_')"; fi
VERIF_REPO="$REPO" VERIF_BUILD_DIR="$BD" python3 "$VERIF_DIR/mkbuild.py"
cd "$REPO"
go1.26.8 test -c -tags verif -vet=off -modfile="$BD/go.mod" -overlay="$BD/overlay.json" -o "$OUT" ./zz_verifsim/
